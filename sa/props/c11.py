"""C11 Layout stages never change program structure or string contents (partial, DESIGN 3/C11)."""
from __future__ import annotations

import ast
from typing import Dict, List, Optional, Set, Tuple

from ..callgraph import CallGraph
from ..defuse import assignments, names_in
from ..model import AnalysisError, Func, Program, norm, parent, short, walk_own, walk_body
from ..pathcond import PathAnalysis, world_has
from ..report import Result
from ..textflow import LINES, SLICE, WHOLE, TextFlow

STR_TRANSFORMS = {"expandtabs", "replace", "translate"}
LIB_TRANSFORMS = {"re.sub": 2, "re.subn": 2, "rmspace.format_str": 0, "textwrap.dedent": 0, "textwrap.indent": 0,
                  "black.format_str": 0, "compactify.format_code": 0}


# ------------------------------------------------------------------------------------------------ (iv) the tree fence
def _is_tree_comparison(prog: Program, f: Func) -> bool:
    """f(a, b) answers whether the texts a and b have the same syntax tree: it returns an equality of two ast.dump(..) whose
    arguments derive from a and from b (through ast.parse / a repository helper that parses)."""
    if len(f.posparams) < 2:
        return False
    a, b = f.posparams[:2]

    def source_of(e: ast.AST, depth: int = 0) -> Set[str]:
        out = set()
        for n in ast.walk(e):
            if isinstance(n, ast.Name):
                if n.id in (a, b):
                    out.add(n.id)
                elif depth < 3:
                    for _st, v in assignments(f, n.id):
                        if v is not None:
                            out |= source_of(v, depth + 1)
        return out
    for r in walk_own(f.node):
        if not isinstance(r, ast.Return) or r.value is None:
            continue
        for c in ast.walk(r.value):
            if isinstance(c, ast.Compare) and len(c.ops) == 1 and isinstance(c.ops[0], ast.Eq):
                sides = [c.left, c.comparators[0]]
                if all(isinstance(x, ast.Call) and norm(x.func) == "ast.dump" and x.args for x in sides):
                    srcs = [source_of(x.args[0]) for x in sides]
                    if {frozenset(srcs[0]), frozenset(srcs[1])} == {frozenset({a}), frozenset({b})}:
                        return True
    return False


def _fenced(prog: Program, fn: Func) -> Optional[str]:
    """The function hands back a text other than its own text parameter only under a positive tree comparison of the two:
    returns the name of the comparison, else None."""
    params = [p for p in fn.posparams]
    if not params:
        return None
    pa = None
    fence = None
    rets = [r for r in walk_own(fn.node) if isinstance(r, ast.Return) and r.value is not None]
    if not rets:
        return None
    for r in rets:
        value = r.value.elts[0] if isinstance(r.value, ast.Tuple) and r.value.elts else r.value     # (text, ...) results: the text comes first
        if isinstance(value, ast.Name) and value.id in params:
            continue                      # the text as it came
        if not isinstance(value, ast.Name):
            return None
        pa = pa or PathAnalysis(prog, fn)
        found = None
        for c in prog.calls_in(fn):
            rr = prog.resolve_call(c.func, fn.mod, fn)
            if rr and rr[0] == "fn" and len(c.args) >= 2 and isinstance(c.args[0], ast.Name) and c.args[0].id in params \
                    and norm(c.args[1]) == value.id and _is_tree_comparison(prog, rr[1]):
                # the comparison was positive - or the text IS the compared input (`v == p or same_tree(p, v)`)
                goal = ast.parse(f"({norm(c)}) or ({value.id} == {c.args[0].id})", mode="eval").body
                ok, _why = pa.holds_at(r, lambda w, goal=goal: pa.formula(goal, w, True))
                if ok:
                    found = rr[1].node.name
        if found is None:
            return None
        fence = found
    return fence


def _only_parsed(fn: Func, c: ast.Call) -> bool:
    """The transformed text is never a result: the variable that receives it is used as the argument of a parser only."""
    host = parent(c)
    while host is not None and not isinstance(host, (ast.Assign, ast.For, ast.stmt)):
        host = parent(host)
    var = None
    if isinstance(host, ast.Assign) and isinstance(host.targets[0], ast.Name):
        var = host.targets[0].id
    elif isinstance(host, ast.For) and isinstance(host.target, ast.Name) and any(x is c for x in ast.walk(host.iter)):
        var = host.target.id
    if var is None:
        return False
    loads = [n for n in walk_own(fn.node) if isinstance(n, ast.Name) and n.id == var and isinstance(n.ctx, ast.Load)]
    return bool(loads) and all(isinstance(parent(n), ast.Call) and norm(parent(n).func) in ("ast.parse", "core.parse", "parse", "compile") and n in parent(n).args
                               for n in loads)


def _callers_fence(prog: Program, fn: Func, reach) -> Optional[str]:
    """Every call of fn from a function on the formatting path binds the text result to a name that is used only (a) as the second
    argument of a tree comparison and (b) under that comparison being true.  -> the callers, else None."""
    callers = []
    for g in prog.funcs.values():
        if g.key not in reach:
            continue
        for c in prog.calls_in(g):
            r = prog.resolve_call(c.func, g.mod, g)
            if not (r and r[0] == "fn" and r[1].key == fn.key):
                continue
            st = parent(c)
            if not isinstance(st, ast.Assign):
                return None
            t = st.targets[0]
            if isinstance(t, ast.Tuple) and t.elts and isinstance(t.elts[0], ast.Name):
                var = t.elts[0].id
            elif isinstance(t, ast.Name):
                var = t.id
            else:
                return None
            if var in g.all_params:
                return None
            pa = PathAnalysis(prog, g)
            comparisons = []
            for k in prog.calls_in(g):
                rr = prog.resolve_call(k.func, g.mod, g)
                if rr and rr[0] == "fn" and len(k.args) >= 2 and norm(k.args[1]) == var and _is_tree_comparison(prog, rr[1]):
                    comparisons.append(k)
            if not comparisons:
                return None
            for use in walk_own(g.node):
                if isinstance(use, ast.Name) and use.id == var and isinstance(use.ctx, ast.Load) and use.lineno >= st.lineno:
                    a_, in_test = parent(use), False
                    child = use
                    while a_ is not None and not isinstance(a_, ast.stmt):
                        child, a_ = a_, parent(a_)
                    if isinstance(a_, (ast.If, ast.While)) and child is a_.test:
                        continue                  # read by the test itself
                    goals = [ast.parse(f"({norm(k)}) or ({var} == {norm(k.args[0])})", mode="eval").body for k in comparisons]
                    if not any(pa.holds_at(use, lambda w, goal=goal: pa.formula(goal, w, True))[0] for goal in goals):
                        return None
            callers.append(g.fq)
    return ", ".join(sorted(set(callers))) if callers else None


def _lib_name(prog: Program, fn: Func, call: ast.Call) -> Optional[str]:
    d = prog.dotted(call.func)
    if not d:
        return None
    head, *rest = d.split(".")
    al = fn.mod.aliases.get(head)
    if al and al[0] == "ext":
        return ".".join([al[1], *rest])
    return d


LATER_RULES = ' Later rules: R11.3 also demands that restored spellings are drawn from a collection validated against the value; (R11.4) the minimum indentation over all lines is only used in a dedent/indent inverse pair; R11.1 (iv) a token-blind stage is accepted when its result is used only under a positive comparison of the syntax trees of input and result; (R11.5) the wrapped code of a statement is used only under that comparison. (R11.6) where the lines of replacement code are re-indented, trailing blanks are stripped only from lines that do not end inside a string literal. (R11.8) = C13 R13.2, the line table is split where the tokenizer ends lines; (R11.7) the tree comparison parses the two texts as they are (at most behind a prefix line): no dedent / strip / expandtabs / substitution before parsing.'


def check(prog: Program, tier: str) -> Result:
    res = Result(
        "C11",
        explanation=(
            "R11.1 no token-blind whole-text transformation on the formatting path. A site is a call of "
            "str.expandtabs/replace/translate, re.sub/subn, rmspace.format_str, textwrap.dedent/indent, black/compactify, "
            "or a splitlines -> select/edit -> join round trip, whose text operand is - by the text-provenance dataflow "
            "of sa/textflow.py - the WHOLE module text (the text parameter or a value derived from it only through "
            "other such calls; not a slice taken from node positions), in a function reachable from format_code. Such a "
            "transformation is applied to the inside of string literals exactly as to any other text, so the site "
            "violates the property by construction unless it is literal-aware: (i) the transformed slice is tested to "
            "be whitespace only, (ii) the operand is a statement range handed to black, or (iii) the function computes "
            "the character ranges of string literals and the edit is control-dependent on a non-overlap test with "
            "them. Sites are keyed by (function, callee, operand) - not by regex text. R11.2 replacement code is re-indented line by line in "
            "_do_rewrite: the recogniser of multi-line literals accepts all 50 spellings of a triple-quoted literal (test expression evaluated "
            "on every spelling by sa/strexpr.py) and the exempted line indexes cover all continuation lines. R11.3 a restored literal spelling "
            "that was edited (prefix swap) is validated again before it replaces a literal. Not decided: correctness of the "
            "literal-aware stages themselves (black's equivalence)."),
        rule_text="instances = text-transformation calls in functions reachable from format_code; non-trivial = operand is the whole module text",
    )
    res.explanation += LATER_RULES
    res.trusted_base = ["CPython ast", "sa/textflow.py provenance rules (seeds: first parameter of @processing.fix rules and format_code)", "sa/callgraph.py"]
    tf = TextFlow(prog)
    reach = CallGraph(prog).reachable([("main", "format_code")])
    n_calls = 0
    seen_keys: Set[str] = set()
    fences: Dict[Tuple[str, str], Optional[str]] = {}
    # (iv) stages applied through a fencing helper: F(stage, text) calls stage(text) and returns it only under the tree comparison
    for fn in prog.funcs.values():
        if fn.key not in reach:
            continue
        for c in prog.calls_in(fn):
            r = prog.resolve_call(c.func, fn.mod, fn)
            if not (r and r[0] == "fn" and len(c.args) >= 2):
                continue
            helper = r[1]
            applies_param = any(isinstance(x.func, ast.Name) and x.func.id in helper.posparams and len(x.args) == 1 and isinstance(x.args[0], ast.Name)
                                and x.args[0].id in helper.posparams for x in prog.calls_in(helper))
            if not applies_param:
                continue
            fence = fences.setdefault(helper.key, _fenced(prog, helper))
            n_calls += 1
            stage = norm(c.args[0])
            res.decide(bool(fence), "R11.1", fn.loc(c), fn.fq, f"{helper.node.name}({stage}, ..) # a text stage applied through a helper",
                       f"literal-aware (iv): {helper.node.name}() uses the result of the stage only when {fence}() found the same syntax tree" if fence else
                       f"{helper.node.name}() applies a text stage to the whole module text and returns the result without comparing the trees")
    for fn in prog.funcs.values():
        if fn.key not in reach:
            continue
        kinds = tf.kinds(fn)
        for c in prog.calls_in(fn):
            operand = None
            callee = None
            if isinstance(c.func, ast.Attribute) and c.func.attr in STR_TRANSFORMS and _lib_name(prog, fn, c) not in LIB_TRANSFORMS:
                operand, callee = c.func.value, f"str.{c.func.attr}"
            else:
                lib = _lib_name(prog, fn, c)
                if lib in LIB_TRANSFORMS and LIB_TRANSFORMS[lib] < len(c.args):
                    operand, callee = c.args[LIB_TRANSFORMS[lib]], lib
            if operand is None:
                continue
            n_calls += 1
            k = tf.expr_kind(operand, fn, kinds)
            root = norm(operand) if isinstance(operand, ast.Name) else short(operand, 40)
            construct = f"{callee}({root})"
            if k != WHOLE:
                res.ok("R11.1", fn.loc(c), fn.fq, construct, f"operand is {k.lower()} text (not the whole module text)", trivial=True)
                continue
            if construct in seen_keys and False:
                continue
            seen_keys.add(construct)
            if _only_parsed(fn, c):
                res.ok("R11.1", fn.loc(c), fn.fq, construct, "the transformed text is only parsed (a comparison of trees), it is no result", trivial=True)
                continue
            fence = fences.setdefault(fn.key, _fenced(prog, fn))
            if fence:
                res.ok("R11.1", fn.loc(c), fn.fq, construct,
                       f"literal-aware (iv): the function returns the transformed text only when {fence}() found the same syntax tree as for its input, else the input")
                continue
            if callee in ("textwrap.dedent", "textwrap.indent"):
                ok, why = _inverse_pair(prog, tf, fn, kinds, c, callee)
                res.decide(ok, "R11.1", fn.loc(c), fn.fq, construct, why)
                continue
            res.bad("R11.1", fn.loc(c), fn.fq, construct,
                    f"{callee} is applied to the whole module text: the inside of string literals (tabs, trailing blanks, runs of blank lines, indentation of "
                    "multi-line literals) is transformed like any other text")
        # line round trips on the whole text
        for n in walk_own(fn.node):
            if isinstance(n, ast.Call) and isinstance(n.func, ast.Attribute) and n.func.attr == "join" and n.args and isinstance(n.args[0], ast.Name) \
                    and kinds.get(n.args[0].id) == LINES:
                name = n.args[0].id
                selective = _selective_line_build(fn, name)
                if not selective:
                    continue
                from .c20 import _flows_to_text_result
                if not _flows_to_text_result(fn, n):
                    continue
                n_calls += 1
                fenced_by = _callers_fence(prog, fn, reach)
                if fenced_by:
                    res.ok("R11.1", fn.loc(n), fn.fq, f"line round trip ''.join({name})",
                           f"literal-aware (iv): token-blind, but every caller on the formatting path ({fenced_by}) uses the result only when the tree comparison "
                           "found the same syntax tree as before")
                    continue
                res.bad("R11.1", fn.loc(n), fn.fq, f"line round trip ''.join({name})",
                        f"the text is split into physical lines, lines are selected by {selective}, and joined back; token-blind: a whitespace-only line of a multi-line "
                        "literal is selected away or re-inserted like any other (seeded/existing_round3/C11/existing11.py shows a pair of texts), and no caller compares the trees")
    # literal-aware stages (listed, with the idiom that discharges them)
    _literal_aware(prog, res, tf, reach)
    res.floors["R11.1"] = 8
    _r11_2(prog, res)
    res.floors["R11.2"] = 1
    _r11_3(prog, res)
    _r11_4(prog, res)
    _r11_5(prog, res)
    _r11_6(prog, res)
    _r11_7(prog, res)
    # the positions every text-level stage works with come out of the line table: a table split at other places than the tokenizer's
    # line ends (str.splitlines: form feed, \x1c-\x1e, \x85, U+2028) moves the range of `the gap before an import` into a literal
    from . import c13 as _c13
    res.adopt(_c13.check(prog, tier), {"R13.2"}, "R11.8",
              "import spacing and the other text-level stages splice at positions computed from the line table; with lines that are not the tokenizer's lines the splice lands inside a multi-line literal, and only validity - not the tree - is checked there")
    res.floors["R11.6"] = 1
    res.floors["R11.8"] = 1
    res.floors["R11.7"] = 1
    res.floors["R11.3"] = 1
    res.floors["R11.4"] = 2
    res.floors["R11.5"] = 1
    res.analysed.update({"transformation_calls": n_calls, "functions_reachable_from_format_code": len(reach)})
    return res


def _lines_put_in(tok_loops, set_name: Optional[str], s_: int, e_: int) -> Optional[set]:
    """Elements put into the local set `set_name` inside the string-token loops for one token spanning lines s_..e_; None if the
    statements are not of the understood kinds."""
    if set_name is None:
        return None

    def ev(e, env):
        if isinstance(e, ast.Constant) and isinstance(e.value, int):
            return e.value
        if isinstance(e, ast.Name):
            return env[e.id]
        if isinstance(e, ast.Subscript) and isinstance(e.slice, ast.Constant) and e.slice.value == 0 and isinstance(e.value, ast.Attribute) and e.value.attr in ("start", "end"):
            return s_ if e.value.attr == "start" else e_
        if isinstance(e, ast.BinOp) and isinstance(e.op, (ast.Add, ast.Sub)):
            l, r = ev(e.left, env), ev(e.right, env)
            return l + r if isinstance(e.op, ast.Add) else l - r
        if isinstance(e, ast.Call) and isinstance(e.func, ast.Name) and e.func.id == "range":
            return range(*[ev(a, env) for a in e.args])
        raise KeyError(type(e).__name__)
    out: set = set()
    found = False
    try:
        for tl in tok_loops:
            for c in ast.walk(tl):
                if not (isinstance(c, ast.Call) and isinstance(c.func, ast.Attribute) and isinstance(c.func.value, ast.Name) and c.func.value.id == set_name and c.args):
                    continue
                # enclosing inner for loops (over ranges of the token's lines)
                loops = []
                a = parent(c)
                while a is not None and a is not tl:
                    if isinstance(a, ast.For) and isinstance(a.target, ast.Name):
                        loops.append(a)
                    a = parent(a)
                envs = [{}]
                for lp in reversed(loops):
                    envs = [{**env, lp.target.id: v} for env in envs for v in ev(lp.iter, env)]
                for env in envs:
                    v = ev(c.args[0], env)
                    found = True
                    if c.func.attr == "add":
                        out.add(v)
                    elif c.func.attr == "update":
                        out |= set(v)
                    else:
                        return None
    except (KeyError, TypeError):
        return None
    return out if found else None


# ------------------------------------------------------------------------------------------------ R11.6
def _r11_6(prog: Program, res: Result) -> None:
    """_do_rewrite re-indents the lines of replacement code and exempts the lines that begin inside a string literal (R11.2).
    The same goes for the END of a line: `.rstrip()` of a line that ends inside a multi-line literal removes blanks that are
    part of the value (a triple-quoted literal with a line of blanks in it).  Obligation: in the function that holds the
    string-token loop, every rstrip / strip of the re-joined code lines is conditional on a membership test of the line index
    in a set that is filled inside that token loop."""
    n = 0
    for fn in prog.funcs.values():
        tok_loops = [l for l in walk_own(fn.node) if isinstance(l, ast.For) and "generate_tokens" in norm(l.iter)]
        if not tok_loops:
            continue
        filled = set()
        for l in tok_loops:
            for c in ast.walk(l):
                if isinstance(c, ast.Call) and isinstance(c.func, ast.Attribute) and c.func.attr in ("add", "update") and isinstance(c.func.value, ast.Name):
                    filled.add(c.func.value.id)
        for j in walk_own(fn.node):
            if not (isinstance(j, ast.Call) and isinstance(j.func, ast.Attribute) and j.func.attr == "join" and j.args and isinstance(j.args[0], (ast.GeneratorExp, ast.ListComp))):
                continue
            comp = j.args[0]
            strips = [c for c in ast.walk(comp.elt) if isinstance(c, ast.Call) and isinstance(c.func, ast.Attribute) and c.func.attr in ("rstrip", "strip") and not c.args]
            if not strips:
                continue
            idx_names = {x.id for g in comp.generators for x in ast.walk(g.target) if isinstance(x, ast.Name)}
            for sc in strips:
                n += 1
                guarded = False
                a = parent(sc)
                while a is not None and a is not comp:
                    if isinstance(a, ast.IfExp):
                        t = a.test
                        if isinstance(t, ast.Compare) and len(t.ops) == 1 and isinstance(t.ops[0], (ast.In, ast.NotIn)) and isinstance(t.left, ast.Name) and t.left.id in idx_names \
                                and isinstance(t.comparators[0], ast.Name) and t.comparators[0].id in filled:
                            in_else = any(x is sc for x in ast.walk(a.orelse))
                            guarded = in_else if isinstance(t.ops[0], ast.In) else not in_else
                    a = parent(a)
                if guarded:
                    # WHICH lines: for a string token from line s to line e (1-based, tokenize), the 0-based indexes of the lines that END
                    # inside it are s-1 .. e-2.  The set tested here is evaluated for s=2, e=5 (a small interpreter for range / add / update
                    # over token.start[0], token.end[0] and the loop variable) and compared with {1, 2, 3}.
                    set_name = None
                    a2 = parent(sc)
                    while a2 is not None and a2 is not comp:
                        if isinstance(a2, ast.IfExp) and isinstance(a2.test, ast.Compare) and isinstance(a2.test.comparators[0], ast.Name):
                            set_name = a2.test.comparators[0].id
                        a2 = parent(a2)
                    got = _lines_put_in(tok_loops, set_name, 2, 5)
                    if got is not None and got != {1, 2, 3}:
                        res.bad("R11.6", fn.loc(sc), fn.fq, f"{short(sc, 60)} # trailing blanks of re-indented code lines",
                                f"for a literal from line 2 to line 5 the lines exempt from stripping are {sorted(got)} (0-based), the lines that END inside it are [1, 2, 3]: "
                                + ("the first line of the literal is stripped of its trailing blanks" if 1 not in got else "the exemption is shifted"))
                        continue
                res.decide(guarded, "R11.6", fn.loc(sc), fn.fq, f"{short(sc, 60)} # trailing blanks of re-indented code lines",
                           "not applied to lines that end inside a string literal" if guarded else
                           "every line of the replacement code is stripped of trailing blanks, also the lines that END inside a multi-line string literal: blanks at the end of "
                           "a line of the literal, and whitespace-only lines in it, are part of its value")
    if n == 0:
        res.undecided("R11.6", "pyrefact/processing.py:0", "processing", "re-indentation of replacement code", "no stripped join of code lines next to a string-token loop")


# ------------------------------------------------------------------------------------------------ R11.7
def _r11_7(prog: Program, res: Result) -> None:
    """The tree comparison is the fence of every token-blind stage.  It sees exactly what survives its own preparation of the
    two texts: if it dedents (textwrap.dedent turns whitespace-only lines into empty ones, also inside literals), strips,
    expands tabs or substitutes before parsing, the same change made by the guarded stage is invisible.  Obligation: every
    text handed to ast.parse in the oracle (and the helpers it calls with its parameters) is the parameter itself or the
    parameter behind a constant prefix (an `if True:` line in front of an indented snippet)."""
    n = 0
    for f in prog.funcs.values():
        if not _is_tree_comparison(prog, f):
            continue
        helpers = [f]
        for c in prog.calls_in(f):
            r = prog.resolve_call(c.func, f.mod, f)
            if r and r[0] == "fn" and r[1].key != f.key and r[1].key not in {h_.key for h_ in helpers} and any(isinstance(a, ast.Name) and a.id in f.posparams[:2] for a in c.args):
                helpers.append(r[1])
        for h in helpers:
            params = set(h.all_params)

            def plain_text(e: ast.AST, depth: int = 0) -> bool:
                if isinstance(e, ast.Name):
                    if e.id in params:
                        return True
                    if depth > 3:
                        return False
                    for l in walk_own(h.node):
                        if isinstance(l, (ast.For, ast.AsyncFor)) and isinstance(l.target, ast.Name) and l.target.id == e.id:
                            return isinstance(l.iter, (ast.Tuple, ast.List)) and all(plain_text(x, depth + 1) for x in l.iter.elts)
                    vals = [v for _st, v in assignments(h, e.id)]
                    return bool(vals) and all(v is not None and plain_text(v, depth + 1) for v in vals)
                if isinstance(e, ast.BinOp) and isinstance(e.op, ast.Add) and isinstance(e.left, ast.Constant) and isinstance(e.left.value, str):
                    return plain_text(e.right, depth + 1)
                return False
            for c in prog.calls_in(h):
                if norm(c.func) == "ast.parse" and c.args:
                    n += 1
                    ok = plain_text(c.args[0])
                    res.decide(ok, "R11.7", h.loc(c), h.fq, f"{short(c, 60)} # what the tree comparison parses",
                               "the text as it is (at most behind a constant prefix line)" if ok else
                               "the text is transformed before it is parsed (dedent / strip / expandtabs / substitution): what that transformation changes - whitespace-only lines "
                               "and indentation INSIDE multi-line literals - is changed on both sides of the comparison, so a stage that makes the same change passes the fence")
    if n == 0:
        res.undecided("R11.7", "pyrefact/core.py:0", "core", "what the tree comparison parses", "no ast.parse in the comparison oracle or its helpers")


# ------------------------------------------------------------------------------------------------ R11.3
def _r11_3(prog: Program, res: Result) -> None:
    """Restoring the original spelling of a string literal puts TEXT in place of a literal node.  The text must denote
    the value of the node it replaces.  The spellings taken from the original source are validated when they are
    collected (parse + match against Constant(value)); if such a spelling is then EDITED (prefix stripped / added,
    concatenation, replace), the edited text has to be validated again before it is stored as a replacement -
    `r'\\n'` with the prefix removed is a different string.  Instance: every `replacements[node] = V` in the
    restoring functions; obligation: no string surgery on V after its last validation on the way to the store."""
    SURGERY = {"lstrip", "rstrip", "strip", "replace", "removeprefix", "removesuffix", "lower", "upper", "format", "join"}
    n = 0
    for name in ("_substitute_original_strings", "_substitute_original_fstrings"):
        fn = prog.funcs.get(("processing", name))
        if fn is None:
            continue
        # the dict of replacements is the one handed to the node-replacing back-end
        sinks = set()
        for c in prog.calls_in(fn):
            r = prog.resolve_call(c.func, fn.mod, fn)
            if r and r[0] == "fn" and r[1].name in ("_replace_nodes", "replace_nodes") and len(c.args) >= 2 and isinstance(c.args[1], ast.Name):
                sinks.add(c.args[1].id)
        for st in walk_own(fn.node):
            if not (isinstance(st, ast.Assign) and isinstance(st.targets[0], ast.Subscript) and isinstance(st.targets[0].value, ast.Name)
                    and st.targets[0].value.id in sinks and isinstance(st.value, ast.Name)):
                continue
            n += 1
            v = st.value.id
            loop = parent(st)
            while loop is not None and not isinstance(loop, ast.For):
                loop = parent(loop)
            scope = loop if loop is not None else fn.node
            edits = []
            for a in ast.walk(scope):
                if isinstance(a, (ast.Assign, ast.AugAssign)) and any(isinstance(t, ast.Name) and t.id == v for t in (a.targets if isinstance(a, ast.Assign) else [a.target])):
                    val = a.value
                    uses_self = any(isinstance(x, ast.Name) and x.id == v for x in ast.walk(val))
                    surgery = isinstance(a, ast.AugAssign) or (uses_self and (isinstance(val, ast.BinOp) or (
                        isinstance(val, ast.Call) and isinstance(val.func, ast.Attribute) and val.func.attr in SURGERY)))
                    if surgery and a.lineno < st.lineno:
                        edits.append(a)
            # (1) the spelling as COLLECTED: the collection it is drawn from must hold spellings of the value only - each
            # element parsed and matched against Constant(value), or filed under a key computed from the very node it is
            # the text of (pieces of f-strings are constants too, but their text is not a literal: `'id'` inside
            # f"'id'{x}" denotes the three characters WITH the quotes)
            drawn = None
            for a in ast.walk(scope):
                if isinstance(a, ast.Assign) and any(isinstance(t, ast.Name) and t.id == v for t in a.targets):
                    for x in ast.walk(a.value):
                        if isinstance(x, ast.Subscript) and isinstance(x.value, ast.Name) and isinstance(x.ctx, ast.Load) and x.value.id != v:
                            cand = x.value.id
                            if any(isinstance(b, ast.Assign) and isinstance(b.targets[0], ast.Name) and b.targets[0].id == cand
                                   and "defaultdict" in norm(b.value) for b in walk_own(fn.node)):
                                drawn = cand
                    if isinstance(a.value, ast.Name) and drawn is None:
                        # through a local: original_formattings = C[key]
                        for b in ast.walk(scope):
                            if isinstance(b, ast.Assign) and any(isinstance(t, ast.Name) and t.id == a.value.id for t in b.targets) \
                                    and isinstance(b.value, ast.Subscript) and isinstance(b.value.value, ast.Name):
                                drawn = b.value.value.id
            if drawn is None:
                for a in ast.walk(scope):
                    if isinstance(a, ast.Assign) and any(isinstance(t, ast.Name) and t.id == v for t in a.targets):
                        for x in ast.walk(a.value):
                            if isinstance(x, ast.Name):
                                for b in ast.walk(scope):
                                    if isinstance(b, ast.Assign) and any(isinstance(t, ast.Name) and t.id == x.id for t in b.targets) \
                                            and isinstance(b.value, ast.Subscript) and isinstance(b.value.value, ast.Name):
                                        drawn = b.value.value.id
            filtered = by_key = False
            if drawn is not None:
                for lp in walk_own(fn.node):
                    if isinstance(lp, ast.For) and drawn in norm(lp.iter):
                        for comp in ast.walk(lp):
                            if isinstance(comp, (ast.ListComp, ast.SetComp, ast.GeneratorExp)) and comp.generators[0].ifs:
                                cond = " and ".join(norm(c_) for c_ in comp.generators[0].ifs)
                                elem = norm(comp.generators[0].target)
                                if "match_template(" in cond and f"parse({elem})" in cond:
                                    filtered = True
                    # C[unparse(node)].append(get_code(node)): key and element are two views of one node
                    if isinstance(lp, ast.For) and isinstance(lp.target, ast.Name):
                        nv = lp.target.id
                        for c_ in ast.walk(lp):
                            if isinstance(c_, ast.Call) and isinstance(c_.func, ast.Attribute) and c_.func.attr in ("append", "add") \
                                    and isinstance(c_.func.value, ast.Subscript) and norm(c_.func.value.value) == drawn and c_.args:
                                key_e, elem_e = c_.func.value.slice, c_.args[0]

                                def from_node(e):
                                    if any(isinstance(y, ast.Name) and y.id == nv for y in ast.walk(e)):
                                        return True
                                    return any(isinstance(y, ast.Name) and any(
                                        isinstance(d, ast.Assign) and any(isinstance(t, ast.Name) and t.id == y.id for t in d.targets)
                                        and any(isinstance(z, ast.Name) and z.id == nv for z in ast.walk(d.value)) for d in ast.walk(lp)) for y in ast.walk(e))
                                if from_node(key_e) and from_node(elem_e) and ".value" not in norm(key_e):
                                    by_key = True
            if drawn is not None and not (filtered or by_key):
                res.bad("R11.3", fn.loc(st), fn.fq, short(st, 70),
                        f"'{v}' is drawn from '{drawn}', whose collected spellings are never parsed and matched against the value of the literal: the text of an f-string "
                        "piece that looks like a quoted literal is taken for a spelling of the string with the quotes stripped")
                continue
            if not edits:
                res.ok("R11.3", fn.loc(st), fn.fq, short(st, 70),
                       f"'{v}' is used as collected" + (f" from '{drawn}', whose spellings were each parsed and matched against the value" if filtered else
                                                        f" from '{drawn}', filed under a key computed from the same node" if by_key else ""))
                continue
            last = max(edits, key=lambda a: a.lineno)
            # a validation of v after the last edit that guards the store: `if not (.. match_template(core.parse(v), ..)): continue`
            ok = False
            for i in ast.walk(scope):
                if isinstance(i, ast.If) and last.lineno < i.lineno <= st.lineno:
                    t = norm(i.test)
                    mentions = f"parse({v})" in t and "match_template(" in t
                    if not mentions:
                        continue
                    neg = t.startswith("not ")
                    leaves = bool(i.body) and isinstance(i.body[-1], (ast.Continue, ast.Return, ast.Break))
                    if (neg and leaves) or (not neg and st in list(ast.walk(i))):
                        ok = True
            res.decide(ok, "R11.3", fn.loc(st), fn.fq, short(st, 70),
                       f"the edited spelling is validated again after line {last.lineno}" if ok else
                       f"'{v}' is edited at line {last.lineno} ({short(last, 60)}) after it was validated and stored without another check that it still "
                       "denotes the value of the literal it replaces: with a raw and a plain spelling in one file, r'\\n' comes back as '\\n'")
    if n == 0:
        res.errors.append("R11.3: no literal-restoring store found (anchors processing._substitute_original_strings / _fstrings)")


# ------------------------------------------------------------------------------------------------ R11.2
STRING_PREFIXES = sorted({"".join(p) for base in ("", "r", "u", "b", "f", "br", "rb", "fr", "rf")
                          for p in __import__("itertools").product(*[(c.lower(), c.upper()) for c in base])})


def _r11_2(prog: Program, res: Result) -> None:
    """Replacement code is re-indented line by line when it is spliced in (processing._do_rewrite; line wrapping and
    every node rewrite go through it).  The lines that BEGIN INSIDE a multi-line string literal must be exempt, or the
    value of the literal changes.  Decided: (a) the test that recognises such literals accepts every spelling of a
    triple-quoted literal Python knows (all prefixes in both cases, both quote characters) - the test expression is
    read from the source and evaluated on all 50 spellings by sa/strexpr.py; (b) the exempted line indexes cover all
    continuation lines lineno .. end_lineno-1 (0-based) of the literal."""
    from .. import strexpr
    fn = prog.funcs.get(("processing", "_do_rewrite"))
    if fn is None:
        raise AnalysisError("anchor processing._do_rewrite not found")
    # the table of per-line indentation: the X of `' ' * X[i]`
    tables = set()
    for n in walk_own(fn.node):
        if isinstance(n, ast.BinOp) and isinstance(n.op, ast.Mult):
            for a, b in ((n.left, n.right), (n.right, n.left)):
                if isinstance(a, ast.Constant) and isinstance(a.value, str) and a.value.strip() == "" and a.value \
                        and isinstance(b, ast.Subscript) and isinstance(b.value, ast.Name):
                    tables.add(b.value.id)
    stores = []
    for n in walk_own(fn.node):
        if isinstance(n, ast.Assign) and len(n.targets) == 1 and isinstance(n.targets[0], ast.Subscript) \
                and isinstance(n.targets[0].value, ast.Name) and n.targets[0].value.id in tables \
                and isinstance(n.value, ast.Constant) and n.value.value == 0:
            stores.append(n)
    if not stores:
        res.undecided("R11.2", fn.loc(), fn.fq, "exemption of literal continuation lines from re-indentation",
                      "no `indents[..] = 0` found: protection written in an unrecognised way")
        return
    from ..model import ancestors
    for st in stores:
        anc = list(ancestors(st))
        rloop = next((a for a in anc if isinstance(a, ast.For) and isinstance(a.iter, ast.Call) and norm(a.iter.func) == "range"), None)
        nloop = next((a for a in anc if isinstance(a, ast.For) and a is not rloop and "walk" in norm(a.iter)), None)
        guards = [a for a in anc if isinstance(a, ast.If) and (nloop is None or a in list(ast.walk(nloop)))]
        # ---- (a) the recogniser
        tloop = next((a for a in anc if isinstance(a, ast.For) and a is not rloop and "tokenize." in norm(a.iter)), None)
        if tloop is not None:
            # token form: `for token in tokenize.generate_tokens(..): if token.type in <types>:` - the types must be all
            # token types that carry string contents in the running interpreter
            import tokenize as _tk
            need = {"STRING"} | ({"FSTRING_MIDDLE"} if hasattr(_tk, "FSTRING_MIDDLE") else set())
            tguards = [a for a in anc if isinstance(a, ast.If) and a in list(ast.walk(tloop))]
            have: Set[str] = set()
            for g in tguards:
                exprs = [g.test]
                for x in ast.walk(g.test):
                    if isinstance(x, ast.Name):
                        exprs.extend(d for _, d in assignments(fn, x.id) if d is not None)
                for e in exprs:
                    for x in ast.walk(e):
                        if isinstance(x, ast.Attribute) and isinstance(x.value, ast.Name) and x.value.id == "tokenize":
                            have.add(x.attr)
                        if isinstance(x, ast.Call) and isinstance(x.func, ast.Name) and x.func.id == "getattr" and len(x.args) >= 2 \
                                and norm(x.args[0]) == "tokenize" and isinstance(x.args[1], ast.Constant):
                            have.add(str(x.args[1].value))
            if not tguards:
                res.ok("R11.2", fn.loc(st), fn.fq, "recogniser of multi-line literals", "every multi-line token is exempted (no type test)")
            else:
                missing = sorted(need - have)
                res.decide(not missing, "R11.2", fn.loc(tguards[0]), fn.fq, "recogniser of multi-line literals",
                           f"every token type that carries string contents is recognised ({sorted(need)})" if not missing else
                           f"token type(s) {missing} carry string contents in this interpreter but are not exempted: lines beginning inside such a literal are re-indented")
        elif nloop is None:
            res.undecided("R11.2", fn.loc(st), fn.fq, "recogniser of multi-line literals", "loop over the literal nodes not found")
        else:
            code_var = None
            pre: List[ast.Assign] = []
            for s_ in nloop.body:
                if isinstance(s_, ast.Assign) and len(s_.targets) == 1 and isinstance(s_.targets[0], ast.Name):
                    if isinstance(s_.value, ast.Call) and norm(s_.value.func).endswith("get_code"):
                        code_var = s_.targets[0].id
                    else:
                        pre.append(s_)
            if not guards:
                res.ok("R11.2", fn.loc(st), fn.fq, "recogniser of multi-line literals", "every str / f-string node is exempted (no spelling test)")
            elif code_var is None:
                res.undecided("R11.2", fn.loc(guards[0]), fn.fq, "recogniser of multi-line literals", "the text of the literal is not taken with get_code")
            else:
                missed, err = [], None
                for q in ("\'\'\'", '"""', "\'", '"'):
                    for p in STRING_PREFIXES:
                        # triple-quoted literal over three lines / single-quoted literal continued with a backslash
                        env = {code_var: f"{p}{q}a\n  b\nc{q}" if len(q) == 3 else f"{p}{q}a\\\n  b{q}"}
                        try:
                            for a_ in pre:
                                try:
                                    env[a_.targets[0].id] = strexpr.ev(a_.value, env)
                                except strexpr.Unsupported:
                                    pass
                            if not all(strexpr.ev(g.test, env) for g in guards):
                                missed.append(f"{p}{q}")
                        except strexpr.Unsupported as error:
                            err = str(error)
                            break
                    if err:
                        break
                text = f"recogniser of multi-line literals: {short(guards[0].test, 70)}"
                if err:
                    res.undecided("R11.2", fn.loc(guards[0]), fn.fq, text, f"test not evaluable ({err})")
                else:
                    res.decide(not missed, "R11.2", fn.loc(guards[0]), fn.fq, "recogniser of multi-line literals",
                               f"accepts all {4 * len(STRING_PREFIXES)} spellings of a literal that spans lines (triple-quoted, or continued with a backslash)" if not missed else
                               f"{len(missed)} spellings of a literal that spans lines are not recognised ({', '.join(missed[:8])} ...): their continuation lines "
                               "are re-indented with the code around them, which changes the value of the literal")
        # ---- (b) the exempted lines
        if rloop is None or not isinstance(rloop.target, ast.Name):
            res.undecided("R11.2", fn.loc(st), fn.fq, "exempted line indexes", "not a `for i in range(a, b): indents[f(i)] = 0` loop")
            continue

        class _Sub(ast.NodeTransformer):
            def visit_Subscript(self, node):
                # token.start[0] / token.end[0]: first and last row of a token
                if isinstance(node.value, ast.Attribute) and node.value.attr in ("start", "end") and isinstance(node.slice, ast.Constant) and node.slice.value == 0:
                    return ast.copy_location(ast.Name(id="__lineno" if node.value.attr == "start" else "__end", ctx=ast.Load()), node)
                return self.generic_visit(node)

            def visit_Attribute(self, node):
                if node.attr == "lineno":
                    return ast.copy_location(ast.Name(id="__lineno", ctx=ast.Load()), node)
                if node.attr == "end_lineno":
                    return ast.copy_location(ast.Name(id="__end", ctx=ast.Load()), node)
                return node
        import copy
        rargs = [_Sub().visit(copy.deepcopy(a)) for a in rloop.iter.args]
        idx = _Sub().visit(copy.deepcopy(st.targets[0].slice))
        bad = None
        try:
            for lineno, end in ((1, 2), (3, 7), (5, 6), (2, 9), (4, 4)):
                env = {"__lineno": lineno, "__end": end}
                vals = [strexpr.ev(a, env) for a in rargs]
                covered = {strexpr.ev(idx, dict(env, **{rloop.target.id: v})) for v in range(*vals)}
                need = set(range(lineno, end))      # 0-based indexes of the lines after the first one
                if not need <= covered:
                    bad = (lineno, end, sorted(need - covered))
                    break
        except (strexpr.Unsupported, TypeError) as error:
            res.undecided("R11.2", fn.loc(st), fn.fq, "exempted line indexes", f"index arithmetic not evaluable ({error})")
            continue
        res.decide(bad is None, "R11.2", fn.loc(rloop), fn.fq, "exempted line indexes",
                   "all continuation lines (0-based lineno .. end_lineno-1) of the literal are exempted" if bad is None else
                   f"for a literal on lines {bad[0]}..{bad[1]} the continuation line(s) with 0-based index {bad[2]} are not exempted: "
                   "they get the indentation of the surrounding code prepended, inside the literal")


def _inverse_pair(prog: Program, tf: TextFlow, fn: Func, kinds, c: ast.Call, callee: str) -> Tuple[bool, str]:
    """(iv) textwrap.dedent(text) ... textwrap.indent(text, ' ' * k) with k = indentation_level(text before dedent):
    an inverse pair on every line that is not whitespace-only (those were already normalised by the trailing-space stage)."""
    dedents = [x for x in prog.calls_in(fn) if _lib_name(prog, fn, x) == "textwrap.dedent" and x.args and tf.expr_kind(x.args[0], fn, kinds) == WHOLE]
    indents = [x for x in prog.calls_in(fn) if _lib_name(prog, fn, x) == "textwrap.indent" and x.args and tf.expr_kind(x.args[0], fn, kinds) == WHOLE]
    # the fence: `if not <tree comparison>(<text before the dedent>, textwrap.indent(<dedented>, ..)): return ..` - the pair is tried on the
    # input before anything is done with the dedented text.  dedent empties whitespace-only lines and indent leaves them empty, also
    # inside literals: on those inputs the pair is no inverse pair, and the comparison says so.
    fence = []
    for x in list(indents):
        call = parent(x)
        if isinstance(call, ast.Assign) and len(call.targets) == 1 and isinstance(call.targets[0], ast.Name):
            # the round trip kept in a local first: the comparison that reads the local
            local = call.targets[0].id
            readers = [y for y in prog.calls_in(fn) if len(y.args) == 2 and isinstance(y.args[1], ast.Name) and y.args[1].id == local and len(assignments(fn, local)) == 1]
            if readers:
                call = readers[0]
                x_arg_ok = True
            else:
                x_arg_ok = False
        else:
            x_arg_ok = isinstance(call, ast.Call) and len(call.args) == 2 and call.args[1] is x
        if x_arg_ok and isinstance(call, ast.Call) and (prog.dotted(call.func) or "").split(".")[-1] == "keeps_syntax_tree" and len(call.args) == 2 \
                and dedents and norm(call.args[0]) == norm(dedents[0].args[0]):
            # decided on the path condition, not on the shape of the `if`: every use of the dedented text outside the comparison stands
            # where the comparison is known to have answered yes
            from ..pathcond import plain
            holder = parent(dedents[0])
            tname = holder.targets[0].id if isinstance(holder, ast.Assign) and len(holder.targets) == 1 and isinstance(holder.targets[0], ast.Name) else None
            inside = {id(y) for y in ast.walk(call)} | ({id(y) for y in ast.walk(parent(x))} if isinstance(parent(x), ast.Assign) else set())
            uses = [y for y in walk_own(fn.node) if isinstance(y, ast.Name) and isinstance(y.ctx, ast.Load) and y.id == tname and id(y) not in inside
                    and (y.lineno, y.col_offset) > (dedents[0].lineno, dedents[0].col_offset)]
            want = norm(call).replace(" ", "")
            pa = PathAnalysis(prog, fn)

            def answered_yes(w) -> bool:
                return any(fct[0] == "lit" and fct[2] and plain(fct[1]).replace(" ", "") == want for fct in w.facts)
            if tname and uses and all(pa.worlds_at(y) and all(answered_yes(w) for w in pa.worlds_at(y)) for y in uses[:3]):
                fence.append(x)
    indents = [x for x in indents if x not in fence]
    if len(dedents) == 1 and len(indents) == 1 and not fence:
        return False, ("dedent empties the whitespace-only lines of the text and indent leaves them empty, also inside string literals: the pair is an inverse pair only on "
                       "inputs without such lines, and nothing tries it on the input (a tree comparison of the text with indent(dedent(text))) before the dedented text is used")
    if len(dedents) != 1 or len(indents) != 1:
        return False, f"{callee} on the whole text is not part of exactly one dedent/indent pair ({len(dedents)} dedent, {len(indents)} indent): indentation inside multi-line literals is changed and not restored"
    d, i = dedents[0], indents[0]
    if not (d.lineno < i.lineno):
        return False, "indent precedes dedent"
    # amount: ' ' * K with K assigned (in the branch of the dedent) from indentation_level(<text>)
    amt = i.args[1] if len(i.args) > 1 else None
    kname = None
    if isinstance(amt, ast.BinOp) and isinstance(amt.op, ast.Mult):
        for side in (amt.left, amt.right):
            if isinstance(side, ast.Name):
                kname = side.id
    if kname is None:
        return False, "the re-indentation amount is not ' ' * <measured indentation>"
    defs = [(s, v) for s, v in assignments(fn, kname) if v is not None]
    measured = [s for s, v in defs if isinstance(v, ast.Call) and (prog.dotted(v.func) or "").endswith("indentation_level")]
    zero = [s for s, v in defs if isinstance(v, ast.Constant) and v.value == 0]
    dstmt = d
    while not isinstance(dstmt, ast.stmt):
        dstmt = parent(dstmt)
    same_block = any(parent(s) is parent(dstmt) and s.lineno < dstmt.lineno for s in measured)
    guarded = False
    a = parent(i)
    while a is not None and a is not fn.node:
        if isinstance(a, ast.If) and kname in names_in(a.test):
            guarded = True
        a = parent(a)
    ok = bool(measured) and same_block and len(measured) + len(zero) == len(defs) and guarded
    return ok, ("literal-aware (iv): dedent and indent form an inverse pair - the amount re-added is the indentation measured on the same text just before it was removed"
                if ok else "dedent/indent do not form an inverse pair (amount not measured next to the dedent, or re-indentation not conditional on it)")


def _selective_line_build(fn: Func, name: str) -> Optional[str]:
    """The line list is rebuilt selectively (conditional extend/append) rather than carried through unchanged."""
    for n in walk_own(fn.node):
        if isinstance(n, ast.Call) and isinstance(n.func, ast.Attribute) and n.func.attr in ("extend", "append") \
                and isinstance(n.func.value, ast.Name) and n.func.value.id == name:
            a = parent(n)
            while a is not None and a is not fn.node:
                if isinstance(a, ast.If):
                    return f"conditions such as `{short(a.test, 50)}`"
                a = parent(a)
    return None


def _mentions_literal_ranges(prog: Program, fn: Func, text: str) -> bool:
    """Some identifier of the fact text is a local derived from the walk over the string literals of the tree."""
    import re as _re
    from ..preserve import derived_from

    def is_literal_walk(n):
        return isinstance(n, ast.Call) and (prog.dotted(n.func) or "") == "core.walk" and "ast.Constant(value=str)" in norm(n) and "ast.JoinedStr" in norm(n)
    for ident in set(_re.findall(r"[A-Za-z_]\w*", text)):
        if ident in fn.all_params:
            continue
        if derived_from(fn, ast.Name(id=ident, ctx=ast.Load()), is_literal_walk):
            return True
    return False


def _literal_aware(prog: Program, res: Result, tf: TextFlow, reach) -> None:
    # (iii) delete_commented_code: ranges of string literals computed, edit under a non-overlap test
    fn = prog.funcs.get(("fixes", "delete_commented_code"))
    if fn is not None:
        has_ranges = any(isinstance(n, ast.Call) and (prog.dotted(n.func) or "") == "core.walk" and "ast.Constant(value=str)" in norm(n) and "ast.JoinedStr" in norm(n)
                         for n in walk_own(fn.node))
        pa = PathAnalysis(prog, fn)
        ys = [y for y in walk_own(fn.node) if isinstance(y, ast.Yield)]
        ok = has_ranges and bool(ys)
        for y in ys:
            worlds = pa.worlds_at(y)
            ok = ok and bool(worlds) and all(world_has(w, False, lambda t: t.startswith("any(") and "&" in t and _mentions_literal_ranges(prog, fn, t)) for w in worlds)
        res.decide(ok, "R11.1", fn.loc(), fn.fq, "comment removal on the whole text",
                   "literal-aware (iii): character ranges of all str/f-string literals are computed and every removal is reached only when it overlaps none of them" if ok else
                   "commented-code removal is no longer conditioned on a non-overlap test with the ranges of string literals: `# ...` lines inside a multi-line string can be deleted")
    # (i) fix_import_spacing: whitespace-only slices (same idiom as C20 R20.3)
    fn = prog.funcs.get(("fixes", "fix_import_spacing"))
    if fn is not None:
        from .c20 import _whitespace_only
        pa = PathAnalysis(prog, fn)
        kinds = tf.kinds(fn)
        found = False
        for n in walk_own(fn.node):
            if isinstance(n, ast.BinOp) and isinstance(n.op, ast.Add) and not (isinstance(parent(n), ast.BinOp) and isinstance(parent(n).op, ast.Add)) \
                    and tf.is_splice(n, fn, kinds):
                found = True
                head, mid, tail = tf.splice_parts(n)
                bounds = names_in(head.slice.upper) | names_in(tail.slice.lower)
                ok = _whitespace_only(prog, fn, pa, n, bounds)
                res.decide(ok, "R11.1", fn.loc(n), fn.fq, "import spacing splice",
                           "literal-aware (i): the replaced slice lies between two statements and is tested to consist of blanks and newlines only" if ok else
                           "the slice replaced by the import-spacing stage is not shown to be whitespace only")
        if not found:
            res.undecided("R11.1", fn.loc(), fn.fq, "import spacing splice", "splice not found")
    # (ii) fix_line_lengths: black on statement ranges
    fn = prog.funcs.get(("fixes", "fix_line_lengths"))
    if fn is not None:
        kinds = tf.kinds(fn)
        calls = [c for c in prog.calls_in(fn) if (prog.dotted(c.func) or "") == "formatting.format_with_black"]
        ok = bool(calls)
        for c in calls:
            k = tf.expr_kind(c.args[0], fn, kinds) if c.args else None
            ok = ok and k != WHOLE
        ranged = any(isinstance(n, ast.Call) and (prog.dotted(n.func) or "") == "core.get_charnos" for n in walk_own(fn.node))
        res.decide(ok and ranged, "R11.1", fn.loc(), fn.fq, "line wrapping",
                   "literal-aware (ii): black (token-aware) is applied to statement ranges taken from node positions" if ok and ranged else
                   "line wrapping no longer applies black to statement ranges only")


# ------------------------------------------------------------------------------------------------ R11.5
def _r11_5(prog: Program, res: Result) -> None:
    """Line wrapping hands each statement to black and then edits the lines of the result as TEXT (bracket-only lines are
    glued together, deep indentation is cut, lines are split with str.splitlines); black itself strips the first string
    of any block like a docstring and drops parentheses that carry meaning.  None of these steps knows the lines of a
    multi-line literal.  Obligation: the new code of a statement is yielded only when a tree comparison of the
    statement's text with the new code (both from this function) was positive."""
    fn = prog.funcs.get(("fixes", "fix_line_lengths"))
    if fn is None:
        raise AnalysisError("anchor fixes.fix_line_lengths not found")
    pa = PathAnalysis(prog, fn)
    comparisons = []
    for k in prog.calls_in(fn):
        rr = prog.resolve_call(k.func, fn.mod, fn)
        if rr and rr[0] == "fn" and len(k.args) >= 2 and _is_tree_comparison(prog, rr[1]):
            comparisons.append(k)
    for y in walk_own(fn.node):
        if not (isinstance(y, ast.Yield) and isinstance(y.value, ast.Tuple) and len(y.value.elts) >= 2):
            continue
        new = y.value.elts[1]
        ok = False
        for k in comparisons:
            mentions_new = any(isinstance(x, ast.Name) and isinstance(new, ast.Name) and x.id == new.id for x in ast.walk(k.args[1]))
            if mentions_new and pa.holds_at(y, lambda w, k=k: pa.formula(k, w, True))[0]:
                ok = True
        res.decide(ok, "R11.5", fn.loc(y), fn.fq, f"{short(y, 60)} # the wrapped code of one statement",
                   "used only when it has the same syntax tree as the statement it replaces" if ok else
                   "the output of black and of the text steps after it (collapsing bracket-only lines, cutting deep indentation, splitlines) replaces the statement "
                   "unchecked: lines of a multi-line string are glued / de-indented / split, the first string of a block is stripped like a docstring, "
                   "`(A): int = 1` loses its parentheses")



def _r11_4(prog: Program, res: Result) -> None:
    """formatting.indentation_level(text) is the MINIMUM indentation over all lines of the text - including the lines of a
    multi-line string literal and oddly continued brackets.  It is the right number for one purpose: to take a block apart with
    textwrap.dedent and put it back with textwrap.indent (an inverse pair: every line moves by the same amount).  Written in
    front of a statement as `' ' * level` it re-indents the statement to the column of its least indented line: a method whose
    docstring has a line in column 0 moves to module level (`def usage` left its class), a `return` leaves its function.
    Instance: every use of a value bound from indentation_level(..) as a repetition count of blanks; obligation: it is the
    prefix argument of textwrap.indent in a function that dedents the same text."""
    from ..defuse import bindings
    n = 0
    for fn in prog.funcs.values():
        levels = set()
        for nm, defs in bindings(fn).items():
            for _s, v in defs:
                if isinstance(v, ast.Call) and (prog.dotted(v.func) or "").split(".")[-1] == "indentation_level":
                    levels.add(nm)
        if not levels:
            continue
        dedents = any(isinstance(c, ast.Call) and (prog.dotted(c.func) or "") == "textwrap.dedent" for c in walk_own(fn.node))
        for x in walk_own(fn.node):
            if isinstance(x, ast.BinOp) and isinstance(x.op, ast.Mult):
                sides = (x.left, x.right)
                cnt = next((s_ for s_ in sides if isinstance(s_, ast.Name) and s_.id in levels), None)
                blank = next((s_ for s_ in sides if isinstance(s_, ast.Constant) and isinstance(s_.value, str) and s_.value.strip(" \t") == "" and s_.value), None)
                if cnt is None or blank is None:
                    continue
                n += 1
                p_ = parent(x)
                in_indent = isinstance(p_, ast.Call) and (prog.dotted(p_.func) or "") == "textwrap.indent" and len(p_.args) >= 2 and p_.args[1] is x
                ok = in_indent and dedents
                res.decide(ok, "R11.4", fn.loc(x), fn.fq, short(p_ if isinstance(p_, ast.Call) else x, 70),
                           "the prefix of textwrap.indent after textwrap.dedent: an inverse pair, every line moves by the same amount" if ok else
                           f"`{norm(x)}` is written in front of a statement, but `{cnt.id}` is the minimum indentation over ALL its lines (string content and continuation lines "
                           "included): the statement is re-indented to the column of its least indented line and can leave its block")
    if n == 0:
        raise AnalysisError("R11.4: no use of indentation_level as a count of blanks found")


# ---------------------------------------------------------------------------------------------- self-test
from ..selftest import Variant  # noqa: E402

VARIANTS = [
    Variant("dedented-text-used-without-trying-the-pair", "FIRE", "main",
            "        if not core.keeps_syntax_tree(\n            source, textwrap.indent(dedented_source, \" \" * minimum_indent)\n        ):\n            return unformatted_source\n", "", "R11.1"),
    Variant("pair-tried-on-the-dedented-text-itself", "FIRE", "main",
            "        if not core.keeps_syntax_tree(\n            source, textwrap.indent(dedented_source, \" \" * minimum_indent)\n        ):", "        if not core.keeps_syntax_tree(\n            dedented_source, textwrap.indent(dedented_source, \" \" * minimum_indent)\n        ):", "R11.1"),
    Variant("round-trip-kept-in-a-local", "SILENT", "main",
            "        if not core.keeps_syntax_tree(\n            source, textwrap.indent(dedented_source, \" \" * minimum_indent)\n        ):", "        there_and_back = textwrap.indent(dedented_source, \" \" * minimum_indent)\n        if not core.keeps_syntax_tree(source, there_and_back):"),
    Variant("tree-comparison-dedents-before-parsing", "FIRE", "core", '    for candidate in (source, "if True:\\n" + source):', '    for candidate in (source, textwrap.dedent(source), "if True:\\n" + source):', "R11.7"),
    Variant("tree-comparison-strips-before-parsing", "FIRE", "core", "            root = ast.parse(candidate)\n        except (SyntaxError, ValueError, RecursionError, MemoryError):\n            continue\n\n        # Whitespace inside docstrings", "            root = ast.parse(candidate.strip())\n        except (SyntaxError, ValueError, RecursionError, MemoryError):\n            continue\n\n        # Whitespace inside docstrings", "R11.7"),
    Variant("every-code-line-stripped-of-trailing-blanks", "FIRE", "processing", "        f\"{' ' * indents[i]}{code}\"\n        if i in ends_inside_string\n        else f\"{' ' * indents[i]}{code}\".rstrip()", "        f\"{' ' * indents[i]}{code}\".rstrip()", "R11.6"),
    Variant("trailing-blanks-test-written-the-other-way-round", "SILENT", "processing", "        f\"{' ' * indents[i]}{code}\"\n        if i in ends_inside_string\n        else f\"{' ' * indents[i]}{code}\".rstrip() + (\"\\n\" if code.endswith(\"\\n\") else \"\")\n",
            "        f\"{' ' * indents[i]}{code}\".rstrip() + (\"\\n\" if code.endswith(\"\\n\") else \"\")\n        if i not in ends_inside_string\n        else f\"{' ' * indents[i]}{code}\"\n"),
    Variant("tab-expansion-unfenced-again", "FIRE", "main", "    source = _apply_layout_stage(functools.partial(str.expandtabs, tabsize=4), source)\n", "    source = source.expandtabs(4)\n", "R11.1"),
    Variant("trailing-blanks-unfenced-again", "FIRE", "main", "    source = fixes.fix_line_lengths(source, max_line_length=max_line_length)\n    source = _apply_layout_stage(rmspace.format_str, source)\n", "    source = fixes.fix_line_lengths(source, max_line_length=max_line_length)\n    source = rmspace.format_str(source)\n", "R11.1"),
    Variant("layout-helper-forgets-the-comparison", "FIRE", "main", "    new_source = stage(source)\n    if core.keeps_syntax_tree(source, new_source):\n        return new_source\n\n    return source\n", "    new_source = stage(source)\n    if new_source:\n        return new_source\n\n    return source\n", "R11.1"),
    Variant("layout-helper-compares-the-input-with-itself", "FIRE", "main", "    new_source = stage(source)\n    if core.keeps_syntax_tree(source, new_source):\n        return new_source\n", "    new_source = stage(source)\n    if core.keeps_syntax_tree(source, source):\n        return new_source\n", "R11.1"),
    Variant("blank-line-limit-returns-unchecked", "FIRE", "fixes", "    if core.keeps_syntax_tree(source, new_source):\n        return new_source\n\n    return source\n\n\n@processing.fix(max_iter=1)\ndef fix_line_lengths", "    return new_source\n\n\n@processing.fix(max_iter=1)\ndef fix_line_lengths", "R11.1"),
    Variant("comparison-of-lengths-instead-of-trees", "FIRE", "core", "    return new_root is not None and ast.dump(old_root) == ast.dump(new_root)\n", "    return new_root is not None and len(ast.dump(old_root)) == len(ast.dump(new_root))\n", "R11.1"),
    Variant("wrapped-statement-used-unchecked", "FIRE", "fixes", "            if not core.keeps_syntax_tree(\n                re.sub(elif_pattern, r\"\\g<1>\\g<3>\", original_code, 1),\n                re.sub(elif_pattern, r\"\\g<1>\\g<3>\", new_code, 1),\n            ):\n                continue\n\n", "", "R11.5"),
    Variant("minimiser-result-used-unchecked", "FIRE", "processing", "    if minimized_source == new_source or core.keeps_syntax_tree(new_source, minimized_source):\n        return minimized_source, found, replaced\n\n    return new_source, found, replaced  # A whitespace-only line may be a line of a string literal\n", "    return minimized_source, found, replaced\n", "R11.1"),
    Variant("layout-helper-with-early-exit", "SILENT", "main", "    new_source = stage(source)\n    if core.keeps_syntax_tree(source, new_source):\n        return new_source\n\n    return source\n", "    new_source = stage(source)\n    if not core.keeps_syntax_tree(source, new_source):\n        return source\n\n    return new_source\n", "R11.1"),
    Variant("statement-reindented-to-its-least-indented-line", "FIRE", "fixes",
            "        indentation = whitespace_between.rpartition(\"\\n\")[2]\n        spacing = \"\\n\" * correct_newline_count + indentation\n",
            "        level = formatting.indentation_level(whitespace_between + source[i2_start:i2_end])\n        spacing = \"\\n\" * correct_newline_count + \" \" * level\n", "R11.4"),
    Variant("re-prefixed-spelling-stored-unchecked", "FIRE", "processing",
            "            if not (\n                core.is_valid_python(most_common_original_formatting)\n                and core.match_template(core.parse(most_common_original_formatting), template)\n            ):\n                continue\n", "", "R11.3"),
    Variant("literal-recogniser-back-to-the-ast-form", "FIRE", "processing",
            "    string_token_types = {tokenize.STRING, getattr(tokenize, \"FSTRING_MIDDLE\", tokenize.STRING)}\n    ends_inside_string = set()\n    try:\n        for token in tokenize.generate_tokens(io.StringIO(new_code).readline):\n            if token.type in string_token_types:\n                for lineno in range(token.start[0], token.end[0]):\n                    indents[lineno] = 0\n                    ends_inside_string.add(lineno - 1)\n    except (tokenize.TokenError, SyntaxError):\n        pass  # new_code is not necessarily valid python syntax in all cases\n",
            "    ends_inside_string = set()\n    try:\n        new_code_ast = core.parse(new_code)\n    except SyntaxError:\n        pass\n    else:\n        for node in core.walk(new_code_ast, (ast.Constant(value=str), ast.JoinedStr)):\n            node_code = core.get_code(node, new_code)\n            if any(\n                node_code.startswith(prefix) and node_code.endswith(prefix[-3:])\n                for prefix in (\"b\'\'\'\", \"r\'\'\'\", \"f\'\'\'\", \"\'\'\'\", \'b\"\"\"\', \'r\"\"\"\', \'f\"\"\"\', \'\"\"\"\')\n            ):\n                for lineno in range(node.lineno, node.end_lineno):\n                    indents[lineno] = 0\n", "R11.2"),
    Variant("literal-recogniser-forgets-fstring-tokens", "FIRE", "processing",
            "    string_token_types = {tokenize.STRING, getattr(tokenize, \"FSTRING_MIDDLE\", tokenize.STRING)}\n", "    string_token_types = {tokenize.STRING}\n", "R11.2"),
    Variant("literal-last-line-not-exempted", "FIRE", "processing",
            "                for lineno in range(token.start[0], token.end[0]):\n                    indents[lineno] = 0\n",
            "                for lineno in range(token.start[0] + 1, token.end[0]):\n                    indents[lineno - 1] = 0\n", "R11.2"),
    Variant("literal-lines-zero-based-loop", "SILENT", "processing",
            "                for lineno in range(token.start[0], token.end[0]):\n                    indents[lineno] = 0\n                    ends_inside_string.add(lineno - 1)\n",
            "                for lineno in range(token.start[0] + 1, token.end[0] + 1):\n                    indents[lineno - 1] = 0\n                    ends_inside_string.add(lineno - 2)\n"),
    Variant("literal-every-multi-line-token-exempted", "SILENT", "processing",
            "            if token.type in string_token_types:\n                for lineno in range(token.start[0], token.end[0]):\n                    indents[lineno] = 0\n                    ends_inside_string.add(lineno - 1)\n",
            "            for lineno in range(token.start[0], token.end[0]):\n                indents[lineno] = 0\n                ends_inside_string.add(lineno - 1)\n"),
    Variant("new-whole-text-replace", "FIRE", "main", "    source = fixes.sort_imports(source)\n\n    source = fixes.fix_line_lengths", "    source = fixes.sort_imports(source)\n    source = source.replace(\"\\t\", \"    \")\n\n    source = fixes.fix_line_lengths", "R11.1", "str.replace"),
    Variant("new-regex-stage-in-helper", "FIRE", "fixes",
            "def fix_too_many_blank_lines(source: str) -> str:\n", "def _strip_form_feeds(source: str) -> str:\n    return re.sub(r\"\\f\", \"\", source)\n\n\ndef fix_too_many_blank_lines(source: str) -> str:\n    source = _strip_form_feeds(source)\n", "R11.1", "_strip_form_feeds"),
    Variant("comment-removal-ignores-literals", "FIRE", "fixes", "                if any(removed_range & other for other in code_ranges):\n                    continue\n", "", "R11.1"),
    Variant("import-spacing-without-whitespace-test", "FIRE", "fixes", "        if set(whitespace_between) - set(\"\\n \"):\n            continue\n", "", "R11.1"),
    Variant("indent-amount-not-the-measured-one", "FIRE", "main", "        source = textwrap.indent(source, \" \" * minimum_indent)", "        source = textwrap.indent(source, \" \" * 4)", "R11.1"),
    Variant("changed-regex-of-known-site", "SILENT", "fixes", "    new_source = re.sub(r\"(\\n\\s*){3,}\\n\", \"\\n\" * 3, source)", "    new_source = re.sub(r\"(\\n[ \\t]*){3,}\\n\", \"\\n\" * 3, source)"),
    Variant("regex-on-a-node-slice", "SILENT", "fixes",
            "    root = core.parse(source)\n    for node in core.walk(root, ast.If):\n        if not node.orelse:\n            continue\n        if not core.get_code(node, source).startswith(\"if\"):",
            "    root = core.parse(source)\n    for node in core.walk(root, ast.If):\n        if not node.orelse:\n            continue\n        if not re.sub(r\"^ +\", \"\", core.get_code(node, source)).startswith(\"if\"):"),
]

META = {
    "design_ref": "DESIGN.md section 3, C11",
    "technique": "site enumeration of text transformations + text-provenance dataflow (whole text vs. node slice) + path-condition check of the literal-aware idioms + exhaustive evaluation of the literal recogniser (expression interpreter over all spellings); token-loop exemption sets evaluated on a sample token; shape of the tree-comparison oracle (parses the texts as they are); the dedent / indent pair is accepted only where every use of the dedented text stands under a positive tree comparison of the input with its round trip (path condition)",
    "level_text": ("Decides on the current source which layout stages apply a token-blind transformation to the whole module "
                   "text (each such site alters string-literal contents by construction and is a finding keyed by function, "
                   "callee and operand) and that the remaining stages are literal-aware by one of four checked idioms; that "
                   "re-indentation of replacement code exempts the continuation lines of every triple-quoted literal (all 50 spellings). "
                   "Three site keys of the pinned tree are known findings (no small repair exists); any new site is a violation. It "
                   "does not decide the correctness of black or of the literal-aware stages themselves."),
    "level_note": "Trusted: CPython ast; provenance rules and seeds of sa/textflow.py; reachability from format_code (sa/callgraph.py).",
}
