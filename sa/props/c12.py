"""C12 Pattern matching agrees with its declarative semantics (partial, DESIGN 3/C12)."""
from __future__ import annotations

import ast
import re
import re._parser as sre_parse
from typing import Dict, List, Optional, Tuple

from ..defuse import assignments
from ..model import AnalysisError, AstClass, Func, Program, Unresolvable, norm, parent, short, walk_own, walk_body
from ..pathcond import Lit, PathAnalysis, entails, plain, world_has
from ..report import Result

DECLARATIVE = {"ZeroOrOne": (0, 1), "ZeroOrMany": (0, "inf"), "OneOrMany": (1, "inf"), "plain": (1, 1)}
SUFFIX = {"": "plain", "?": "ZeroOrOne", "*": "ZeroOrMany", "+": "OneOrMany"}
NON_SEMANTIC = {"lineno", "col_offset", "end_lineno", "end_col_offset", "kind", "type_comment", "ctx"}
REQUIRED_BODY = {"Module", "FunctionDef", "AsyncFunctionDef", "ClassDef", "If", "For", "AsyncFor", "While", "With", "AsyncWith"}   # "bodies of modules, definitions and if/for/while/with blocks" - the async forms of def, for and with are the same blocks
REQUIRED_ORELSE = {"If", "For", "AsyncFor", "While"}


def _suffix_of_regex(pattern: str) -> Optional[Tuple[str, str]]:
    r"""('named'|'ellipsis', suffix) for patterns of the form \{\{\w+S\}\} / \{\{\.{3}S\}\}."""
    try:
        parsed = list(sre_parse.parse(pattern))
    except re.error:
        return None
    toks = []
    for op, av in parsed:
        name = str(op)
        if name == "LITERAL":
            toks.append(("lit", chr(av)))
        elif name == "MAX_REPEAT":
            lo, hi, body = av
            inner = list(body)
            if len(inner) == 1 and str(inner[0][0]) == "IN":
                toks.append(("word+", None))
            elif len(inner) == 1 and str(inner[0][0]) == "LITERAL" and chr(inner[0][1]) == "." and lo == hi == 3:
                toks.append(("dots", None))
            else:
                return None
        else:
            return None
    if len(toks) < 5 or toks[0] != ("lit", "{") or toks[1] != ("lit", "{") or toks[-1] != ("lit", "}") or toks[-2] != ("lit", "}"):
        return None
    middle = toks[2:-2]
    kind = {"word+": "named", "dots": "ellipsis"}.get(middle[0][0])
    if kind is None:
        return None
    rest = middle[1:]
    if not rest:
        return kind, ""
    if len(rest) == 1 and rest[0][0] == "lit" and rest[0][1] in "?*+":
        return kind, rest[0][1]
    return None


def _class_of_value(e: ast.AST) -> Optional[str]:
    if isinstance(e, ast.Name) and e.id == "object":
        return "plain"
    if isinstance(e, ast.Call) and isinstance(e.func, ast.Name) and e.func.id in ("ZeroOrOne", "ZeroOrMany", "OneOrMany"):
        return e.func.id
    return None


LATER_RULES = ' Later rules: (R12.6) hand-written visit_K methods of the template compiler pass all fields of K, empty ones included; (R12.7) the pattern list is matched as given; (R12.8) a wildcard never matches an absent child; (R12.9) leaf values are compared type-strictly; (R12.10) the candidate classes the search selects before matching are a necessary condition of a match for every kind of template (type, tree, wildcard, alternatives); (R12.11) the entry points of the pattern language ignore the same fields apart from positions; (R12.12) the wildcard matcher answers `no match` only when the match against the own template of the wildcard failed. (R12.13) every repetition count of a yielded quantifier expansion is drawn from the range of its element (the product of the ranges), or tested against both ends of it.'


def check(prog: Program, tier: str) -> Result:
    res = Result(
        "C12",
        explanation=(
            "Decides the table-shaped clauses of the matcher: (R12.1) the quantifier suffix table of the template "
            "compiler, the (min, max) repetition table of the permutation generator and the length filter of the list "
            "matcher agree with each other and with the regular-expression reading ?=(0,1) *=(0,inf) +=(1,inf) "
            "plain=(1,1); (R12.2) statement-sequence patterns are searched in the body/orelse of every block kind the "
            "property names; (R12.3) only positional / non-semantic fields are ignored and every other template field "
            "is compared; (R12.4) combination rules: a failed child fails the parent, repeated wildcards must agree "
            "(consistency test dominates every successful merge), alternatives (tuples) succeed on the first matching "
            "alternative, type templates use isinstance, AST templates require the same node class; (R12.5) search completeness of the list "
            "matcher: a result is returned from inside the loop over quantifier expansions only after it was tested to be a match; (R12.6) node "
            "kinds the template compiler rebuilds by hand carry over every field of the class (type_params). Not decided: the "
            "backtracking search itself (slack arithmetic, window arithmetic of walk_sequence)."),
        rule_text="instances = table entries and combination-rule sites in core.py",
    )
    res.explanation += LATER_RULES
    res.trusted_base = ["CPython ast and re._parser", "declarative quantifier table in sa/props/c12.py"]
    _r12_1(prog, res)
    _r12_2(prog, res)
    _r12_3(prog, res)
    _r12_4(prog, res)
    _r12_5(prog, res)
    _r12_6(prog, res)
    _r12_7(prog, res)
    _r12_8(prog, res)
    _r12_9(prog, res)
    _r12_10(prog, res)
    _r12_11(prog, res)
    _r12_12(prog, res)
    _r12_13(prog, res)
    _r12_14(prog, res)
    res.floors.update({"R12.14": 1, "R12.13": 1, "R12.1": 18, "R12.2": 11, "R12.3": 3, "R12.4": 8, "R12.5": 1, "R12.6": 4, "R12.7": 4, "R12.8": 1, "R12.9": 1, "R12.10": 4, "R12.11": 4, "R12.12": 1})
    return res


# ------------------------------------------------------------------------------------------------ R12.1
def _r12_1(prog: Program, res: Result) -> None:
    fn = prog.func("core", "compile_template")
    n = 0
    for d in walk_own(fn.node):
        if not isinstance(d, ast.DictComp):
            continue
        g = d.generators[0]
        it = g.iter
        if not (isinstance(it, ast.Call) and prog.dotted(it.func) == "re.findall" and it.args and isinstance(it.args[0], ast.Constant)):
            continue
        pat = it.args[0].value
        sfx = _suffix_of_regex(pat)
        cls = _class_of_value(d.value)
        if sfx is None or cls is None:
            res.undecided("R12.1", fn.loc(d), fn.fq, f"{pat!r} -> {norm(d.value)}", "wildcard syntax entry not in the recognised shape")
            continue
        n += 1
        kind, suffix = sfx
        want = SUFFIX[suffix]
        res.decide(cls == want, "R12.1", fn.loc(d), fn.fq, f"{kind} wildcard suffix {suffix!r} -> {cls}",
                   f"'{suffix or '(none)'}' means {want} {DECLARATIVE[want]}" if cls == want else
                   f"suffix {suffix!r} must compile to {want} {DECLARATIVE[want]}, not {cls}")
        # the key must strip '{{' and the suffix + '}}'
        key = d.key
        if kind == "named" and isinstance(key, ast.Subscript) and isinstance(key.slice, ast.Slice):
            lo = key.slice.lower.value if isinstance(key.slice.lower, ast.Constant) else None
            up = key.slice.upper
            upv = -up.operand.value if isinstance(up, ast.UnaryOp) and isinstance(up.op, ast.USub) and isinstance(up.operand, ast.Constant) else None
            want_up = -(2 + len(suffix))
            res.decide(lo == 2 and upv == want_up, "R12.1", fn.loc(d), fn.fq, f"name extraction for suffix {suffix!r}: {norm(key)}",
                       "strips the braces and the suffix" if lo == 2 and upv == want_up else f"expected name[2:{want_up}]")
    if n < 8:
        res.undecided("R12.1", fn.loc(), fn.fq, "wildcard syntax table", f"only {n} of 8 entries recognised")
    # class -> suffix used for substitution
    for s in walk_own(fn.node):
        if isinstance(s, ast.If) and isinstance(s.test, ast.Call) and isinstance(s.test.func, ast.Name) and s.test.func.id == "isinstance" \
                and len(s.test.args) == 2 and isinstance(s.test.args[1], ast.Name) and s.test.args[1].id in ("ZeroOrOne", "ZeroOrMany", "OneOrMany"):
            for a in s.body:
                if isinstance(a, ast.Assign) and isinstance(a.targets[0], ast.Name) and isinstance(a.value, ast.Constant) and a.value.value in ("?", "*", "+"):
                    cls = s.test.args[1].id
                    ok = SUFFIX.get(a.value.value) == cls
                    res.decide(ok, "R12.1", fn.loc(a), fn.fq, f"placeholder suffix for {cls}: {a.value.value!r}",
                               "inverse of the syntax table" if ok else f"{cls} is written with suffix {[k for k, v in SUFFIX.items() if v == cls][0]!r}")
    # repetition table of the permutation generator
    fn2 = prog.func("core", "_iter_template_permutations")
    length = fn2.posparams[1] if len(fn2.posparams) > 1 else "length"
    seen = set()
    first_phase = True
    slack = "slack"
    for s in sorted((x for x in walk_own(fn2.node) if isinstance(x, (ast.Assign, ast.For))), key=lambda x: x.lineno):
        # the slack: `<name> = length - <sum of the minimum counts>`, computed between the two passes over the template
        if isinstance(s, ast.Assign) and isinstance(s.targets[0], ast.Name) and isinstance(s.value, ast.BinOp) and isinstance(s.value.op, ast.Sub) \
                and norm(s.value.left) == length:
            slack = s.targets[0].id
            first_phase = False
        if isinstance(s, ast.For):
            for cls, tup, node_ in _isinstance_tuple_assigns(s.body):
                if tup is None:
                    continue
                lo, hi = tup
                phase = "initial" if first_phase else "after slack"
                if first_phase:
                    want = {"ZeroOrOne": ("0", "1"), "ZeroOrMany": ("0", length), "OneOrMany": ("1", length), "plain": ("1", "1")}[cls]
                else:
                    want = {"ZeroOrMany": ("0", slack), "OneOrMany": ("1", f"1 + {slack}"), "ZeroOrOne": ("0", "1"), "plain": ("1", "1")}[cls]
                ok = (lo, hi.replace(f"{slack} + 1", f"1 + {slack}")) == want
                seen.add((phase, cls))
                res.decide(ok, "R12.1", fn2.loc(node_), fn2.fq, f"repetitions of {cls} ({phase}): ({lo}, {hi})",
                           f"{cls} = {DECLARATIVE[cls]} (inf bounded by {want[1]})" if ok else f"{cls} must repeat {want}, found ({lo}, {hi})")
    for need in (("initial", "ZeroOrOne"), ("initial", "ZeroOrMany"), ("initial", "OneOrMany"), ("initial", "plain"),
                 ("after slack", "ZeroOrMany"), ("after slack", "OneOrMany")):
        if need not in seen:
            res.undecided("R12.1", fn2.loc(), fn2.fq, f"repetitions of {need[1]} ({need[0]})", "entry not found in the recognised shape")
    # length filter of the list matcher
    fn3 = prog.func("core", "_match_list")
    effects: Dict[str, Dict[str, str]] = {}
    for s in walk_own(fn3.node):
        if isinstance(s, ast.If) and isinstance(s.test, ast.Call) and isinstance(s.test.func, ast.Name) and s.test.func.id == "isinstance" \
                and len(s.test.args) == 2 and isinstance(s.test.args[1], ast.Name) and s.test.args[1].id in ("ZeroOrOne", "ZeroOrMany", "OneOrMany"):
            cls = s.test.args[1].id
            for a in s.body:
                if isinstance(a, ast.AugAssign) and isinstance(a.target, ast.Name):
                    effects.setdefault(cls, {})[a.target.id] = ("-" if isinstance(a.op, ast.Sub) else "+") + norm(a.value)
                elif isinstance(a, ast.Assign) and isinstance(a.targets[0], ast.Name):
                    effects.setdefault(cls, {})[a.targets[0].id] = "=" + norm(a.value)
    inits = [s for s in walk_own(fn3.node) if isinstance(s, ast.Assign) and len(s.targets) == 2]
    base_ok = any(norm(s.value).replace(" ", "") == f"len({fn3.posparams[1]})" for s in inits)
    # which of the two counters is the minimum and which the maximum is read off the filter `not MIN <= len(..) <= MAX`
    mins, maxs = [], []
    both = {t.id for s in inits for t in s.targets if isinstance(t, ast.Name)}
    for s in walk_own(fn3.node):
        t = s.test.operand if isinstance(s, ast.If) and isinstance(s.test, ast.UnaryOp) and isinstance(s.test.op, ast.Not) else None
        if isinstance(t, ast.Compare) and len(t.ops) == 2 and all(isinstance(o, (ast.LtE, ast.Lt)) for o in t.ops) \
                and isinstance(t.left, ast.Name) and isinstance(t.comparators[1], ast.Name) and {t.left.id, t.comparators[1].id} <= both:
            mins, maxs = [t.left.id], [t.comparators[1].id]
    if not (base_ok and mins and maxs):
        res.undecided("R12.1", fn3.loc(), fn3.fq, "length filter", "min/max initialisation not recognised")
    else:
        mn, mx = mins[0], maxs[0]
        for cls in ("ZeroOrOne", "ZeroOrMany", "OneOrMany"):
            e = effects.get(cls, {})
            lo, hi = DECLARATIVE[cls]
            want_min = "-1" if lo == 0 else None
            want_max = "=float('inf')" if hi == "inf" else None
            ok = e.get(mn) == want_min and e.get(mx) == want_max
            res.decide(ok, "R12.1", fn3.loc(), fn3.fq, f"length contribution of {cls}: min {e.get(mn)}, max {e.get(mx)}",
                       f"{cls} contributes {DECLARATIVE[cls]} elements (each plain element 1)" if ok else
                       f"{cls} must change (min, max) by ({want_min}, {want_max}) relative to one element each")
        # the filter itself
        filt = [s for s in walk_own(fn3.node) if isinstance(s, ast.If) and mn in norm(s.test) and mx in norm(s.test)]
        ok = bool(filt) and norm(filt[0].test).replace(" ", "") == f"not{mn}<=len({fn3.posparams[0]})<={mx}"
        res.decide(ok, "R12.1", fn3.loc(filt[0]) if filt else fn3.loc(), fn3.fq, "length filter test",
                   "rejects exactly the lists whose length is outside [min, max]" if ok else f"filter is `{norm(filt[0].test) if filt else '?'}`")


def _isinstance_tuple_assigns(body) -> List[Tuple[str, Optional[Tuple[str, str]], ast.AST]]:
    """[(class name | 'plain', (lo, hi) texts, node)] from an if/elif chain or a sequence of ifs assigning tuples."""
    out = []

    def tup_of(stmts):
        for a in stmts:
            if isinstance(a, ast.Assign) and isinstance(a.value, ast.Tuple) and len(a.value.elts) == 2:
                return (norm(a.value.elts[0]), norm(a.value.elts[1])), a
        return None, None

    def chain(s):
        while isinstance(s, ast.If):
            t, then, other = s.test, s.body, s.orelse
            if isinstance(t, ast.UnaryOp) and isinstance(t.op, ast.Not):     # `if not isinstance(x, K): <else part> else: <K part>`
                t, then, other = t.operand, s.orelse, s.body
            if isinstance(t, ast.Call) and isinstance(t.func, ast.Name) and t.func.id == "isinstance":
                names = [t.args[1].id] if isinstance(t.args[1], ast.Name) else \
                    [x.id for x in t.args[1].elts if isinstance(x, ast.Name)] if isinstance(t.args[1], ast.Tuple) else []
                tup, node_ = tup_of(then)
                for nm in names:
                    out.append((nm, tup, node_ or s))
            if len(other) == 1 and isinstance(other[0], ast.If):
                s = other[0]
            else:
                if other:
                    tup, node_ = tup_of(other)
                    out.append(("plain", tup, node_ or s))
                break
    for s in body:
        if isinstance(s, ast.If):
            chain(s)
    return out


# ------------------------------------------------------------------------------------------------ R12.2
def _r12_2(prog: Program, res: Result) -> None:
    where = "pyrefact/constants.py"
    try:
        body = {getattr(x, "name", str(x)) for x in prog.const("constants", "AST_TYPES_WITH_BODY")}
        orelse = {getattr(x, "name", str(x)) for x in prog.const("constants", "AST_TYPES_WITH_ORELSE")}
    except Unresolvable as error:
        res.undecided("R12.2", where, "constants", "block kinds", f"not resolvable: {error}")
        return
    fn = prog.func("core", "walk_sequence")
    fields = set()
    walked = set()
    reads = []
    for n in walk_own(fn.node):
        if isinstance(n, ast.Call) and isinstance(n.func, ast.Name) and n.func.id == "getattr" and len(n.args) >= 2:
            if isinstance(n.args[1], ast.Constant):
                fields.add(n.args[1].value)
                reads.append(n)
            elif isinstance(n.args[1], ast.Name):
                # getattr(node, field, []) with `for field in ("body", "orelse")`
                a = parent(n)
                while a is not None and a is not fn.node:
                    if isinstance(a, ast.For) and isinstance(a.target, ast.Name) and a.target.id == n.args[1].id \
                            and isinstance(a.iter, (ast.Tuple, ast.List)) and all(isinstance(x, ast.Constant) for x in a.iter.elts):
                        fields |= {x.value for x in a.iter.elts}
                        reads.append(n)
                    a = parent(a)
        if isinstance(n, ast.Attribute) and n.attr in ("body", "orelse") and isinstance(n.value, ast.Name):
            fields.add(n.attr)
            reads.append(n)
        if isinstance(n, ast.Attribute) and n.attr in ("AST_TYPES_WITH_BODY", "AST_TYPES_WITH_ORELSE"):
            walked.add(n.attr)
    # the node whose blocks are read must be the one bound by the walk over the block kinds (no rebinding in between)
    from ..defuse import bindings as _bnd

    def iter_text(e: ast.AST) -> str:
        t = norm(e)
        for x in ast.walk(e):      # the kinds may be handed over through a local
            if isinstance(x, ast.Name):
                t += " " + " ".join(norm(v) for _s, v in _bnd(fn).get(x.id, []) if v is not None)
        return t
    walk_loop = next((n for n in walk_own(fn.node) if isinstance(n, ast.For) and isinstance(n.target, ast.Name)
                      and "AST_TYPES_WITH" in iter_text(n.iter)), None)
    if walk_loop is not None:
        pa = PathAnalysis(prog, fn)
        want = f"{walk_loop.target.id}#i{pa.nid(walk_loop)}"
        for rd in reads:
            var = rd.args[0] if isinstance(rd, ast.Call) else rd.value
            if not (isinstance(var, ast.Name) and var.id == walk_loop.target.id):
                continue
            toks = {w.token(var.id) for w in pa.worlds_at(rd)}
            ok = toks == {want}
            res.decide(ok, "R12.2", fn.loc(rd), fn.fq, f"block read {norm(rd)}",
                       "reads the block of the node bound by the walk" if ok else
                       f"'{var.id}' may have been rebound (by an inner loop) when its block is read ({sorted(toks)}): the statements of another node are searched instead")
    for kind in sorted(REQUIRED_BODY):
        ok = kind in body and "AST_TYPES_WITH_BODY" in walked and "body" in fields
        res.decide(ok, "R12.2", fn.loc(), fn.fq, f"sequence patterns searched in {kind}.body",
                   "kind is walked and its body enumerated" if ok else f"statement sequences inside the body of ast.{kind} are never searched")
    for kind in sorted(REQUIRED_ORELSE):
        ok = (kind in orelse or kind in body) and "orelse" in fields and ({"AST_TYPES_WITH_ORELSE", "AST_TYPES_WITH_BODY"} & walked)
        res.decide(bool(ok), "R12.2", fn.loc(), fn.fq, f"sequence patterns searched in {kind}.orelse",
                   "kind is walked and its orelse enumerated" if ok else f"statement sequences inside the orelse of ast.{kind} are never searched")


# ------------------------------------------------------------------------------------------------ R12.3
def _r12_3(prog: Program, res: Result) -> None:
    from ..model import ConstEval
    mod = prog.module("core")
    try:
        default = set(prog.const("core", "DEFAULT_IGNORE"))
        bad = sorted(default - NON_SEMANTIC)
        res.decide(not bad, "R12.3", f"pyrefact/core.py:{mod.globals['DEFAULT_IGNORE'].lineno}", "core.DEFAULT_IGNORE", f"ignored fields {sorted(default)}",
                   "positions and non-semantic annotations only" if not bad else f"semantic field(s) {bad} are ignored when matching: different code matches")
    except Unresolvable as error:
        res.undecided("R12.3", "pyrefact/core.py:0", "core.DEFAULT_IGNORE", "ignored fields", str(error))
    fn = prog.func("core", "compile_template")
    args = fn.node.args
    defaults = dict(zip([a.arg for a in args.args][-len(args.defaults):], args.defaults)) if args.defaults else {}
    if "ignore" in defaults:
        try:
            ig = set(ConstEval(prog, fn.mod).ev(defaults["ignore"]))
            bad = sorted(ig - NON_SEMANTIC)
            res.decide(not bad, "R12.3", fn.loc(defaults["ignore"]), fn.fq, f"default ignore of compiled templates {sorted(ig)}",
                       "positions and expression context only" if not bad else f"semantic field(s) {bad} dropped from compiled templates")
        except Unresolvable as error:
            res.undecided("R12.3", fn.loc(), fn.fq, "default ignore", str(error))
    # _match_template_vars compares every template field outside ignore
    fn2 = prog.func("core", "_match_template_vars")
    params = [a.arg for a in fn2.node.args.args]
    role = {}           # local name -> "n" (fields of the node) / "t" (fields of the template)
    for st in walk_own(fn2.node):
        if isinstance(st, ast.Assign) and isinstance(st.targets[0], ast.Name) and isinstance(st.value, ast.Call) \
                and norm(st.value.func) == "vars" and st.value.args and isinstance(st.value.args[0], ast.Name) and st.value.args[0].id in params[:2]:
            role[st.targets[0].id] = "nt"[params.index(st.value.args[0].id)]
    ig = params[2] if len(params) > 2 else "ignore"

    def canon(e: ast.AST) -> str:
        text = norm(e)
        for name, r in role.items():
            text = re.sub(rf"(?<![\w.]){re.escape(name)}(?![\w])", f"<{r}>", text)
        return re.sub(rf"(?<![\w.]){re.escape(ig)}(?![\w])", "<ig>", text).replace(" ", "")

    def canon_text(text: str) -> str:
        for name, r in role.items():
            text = re.sub(rf"(?<![\w.]){re.escape(name)}(?![\w])", f"<{r}>", text)
        return text.replace(" ", "")

    def empty_test(e: ast.AST, key: str) -> bool:
        """`e` says that the template's value for `key` is the empty child: None or []."""
        forms = {f"<t>[{key}]isNone", f"<t>[{key}]==[]", f"not<t>[{key}]"}
        if isinstance(e, ast.BoolOp) and isinstance(e.op, ast.Or):
            return all(canon(v) in forms for v in e.values)
        return canon(e) in forms

    # (a) a template field that the node lacks fails the match - unless the template has the empty child there (None, []):
    #     a node built by hand may omit an optional child, and is then the node without it
    lacking_fails, lenient = False, False
    pa = PathAnalysis(prog, fn2)
    for n in walk_own(fn2.node):
        if not (isinstance(n, ast.Return) and n.value is not None and norm(n.value) == "()"):
            continue
        loop = parent(n)
        while loop is not None and not isinstance(loop, ast.For):
            loop = parent(loop)
        if loop is None or canon(loop.iter) not in ("<t>", "<t>.keys()"):
            continue
        key = norm(loop.target)
        worlds = pa.worlds_at(n)
        if not worlds:
            continue
        # facts on the way to this `return ()`, read off the path condition (however the tests are nested or combined)
        strict, soft = True, True
        for w in worlds:
            lits = {(canon_text(plain(f[1])), f[2]) for f in w.facts if f[0] == "lit"}
            if (f"in({key},<n>)", False) not in lits:
                strict = soft = False
                break
            about_value = {l for l in lits if f"<t>[{key}]" in l[0]}
            allowed = {(f"is(<t>[{key}],None)", False), (f"eq([],<t>[{key}])", False), (f"eq(<t>[{key}],[])", False), (f"<t>[{key}]", True)}
            if about_value:
                strict = False
                if not about_value <= allowed:
                    soft = False
        if strict:
            lacking_fails = True
        elif soft:
            lacking_fails = lenient = True
    res.decide(lacking_fails, "R12.3", fn2.loc(), fn2.fq, "template field absent on node",
               ("fails the match" + (" unless the template has the empty child (None, []) there" if lenient else "")) if lacking_fails else
               "a template field that the node lacks no longer fails the match")
    # (b) every other template field outside `ignore` is compared with the same field of the node
    gens = [n for n in walk_own(fn2.node) if isinstance(n, ast.GeneratorExp)]
    ok = False
    detail = "comparison generator not found"
    for g in gens:
        if isinstance(g.elt, ast.Call) and isinstance(g.elt.func, ast.Name) and g.elt.func.id == "match_template":
            gen = g.generators[0]
            it = canon(gen.iter)
            key = norm(gen.target)
            ifs = sorted(canon(c) for c in gen.ifs)
            present = f"{key}in<n>"
            if it in ("<t>.keys()-<ig>", "<t>-<ig>"):
                ok = ifs == [] or (ifs == [present] and lacking_fails)
            elif it in ("<t>", "<t>.keys()"):
                ok = ifs == [f"{key}notin<ig>"] or (ifs == sorted([f"{key}notin<ig>", present]) and lacking_fails)
            a0, a1 = [canon(a) for a in g.elt.args[:2]]
            ok = ok and a0 == f"<n>[{key}]" and a1 == f"<t>[{key}]"
            detail = ("every template field outside `ignore` is matched against the same field of the node"
                      + (" (fields the node lacks were settled before)" if present in ifs else "") if ok else
                      f"fields compared: for {key} in {norm(gen.iter)} {[norm(c) for c in gen.ifs]} -> match_template({a0}, {a1})")
    res.decide(ok, "R12.3", fn2.loc(), fn2.fq, "field-wise comparison", detail)


# ------------------------------------------------------------------------------------------------ R12.4
def _r12_4(prog: Program, res: Result) -> None:
    # merge_matches: failed child fails the parent; consistency dominates success
    fn = prog.func("core", "merge_matches")
    p_matches = fn.posparams[1]
    fail_child = False
    for n in walk_own(fn.node):
        if isinstance(n, ast.For) and norm(n.iter) == p_matches and isinstance(n.target, ast.Name):
            v = n.target.id
            for s in n.body:
                if isinstance(s, ast.If) and norm(s.test) == f"not {v}" and s.body and isinstance(s.body[-1], ast.Return) and norm(s.body[-1].value) == "()":
                    fail_child = True
    res.decide(fail_child, "R12.4", fn.loc(), fn.fq, "failed child fails the parent",
               "an empty child match returns ()" if fail_child else "merge_matches no longer rejects when a child failed to match")
    pa = PathAnalysis(prog, fn)
    rets = [r for r in walk_own(fn.node) if isinstance(r, ast.Return) and r.value is not None and norm(r.value) not in ("()",)]
    for r in rets:
        if norm(r.value).startswith("(") and norm(r.value).endswith(",)"):
            # `(root,)`: no wildcards were bound, nothing to be consistent about - reached only when the collection
            # handed to the consistency test is empty
            coll = None
            for c in prog.calls_in(fn):
                if norm(c.func).endswith("_all_fields_consistent") and c.args and isinstance(c.args[0], ast.Name):
                    coll = c.args[0].id
            ok = coll is not None and pa.reached(r) and pa.holds_at(r, lambda w: pa.formula(ast.Name(id=coll, ctx=ast.Load()), w, False))[0]
            res.decide(ok, "R12.4", fn.loc(r), fn.fq, norm(r), "returned only when no child bound a wildcard" if ok else "plain success is returned although wildcard bindings exist")
            continue
        worlds = pa.worlds_at(r)
        ok = bool(worlds) and all(world_has(w, True, lambda t: "_all_fields_consistent(" in t) for w in worlds)
        res.decide(ok, "R12.4", fn.loc(r), fn.fq, short(r, 70),
                   "successful merge only after _all_fields_consistent held" if ok else
                   "a merged match is returned without the consistency test: one wildcard name may bind two different trees")
    # _all_fields_consistent: two different texts for one key -> False
    fn2 = prog.func("core", "_all_fields_consistent")
    bad_ret = [r for r in walk_own(fn2.node) if isinstance(r, ast.Return) and isinstance(r.value, ast.Constant) and r.value.value is False]
    ok = False
    for r in bad_ret:
        host = parent(r)
        if isinstance(host, ast.If) and re.fullmatch(r"len\((\w+)\) > 1", norm(host.test)):
            ok = True
    res.decide(ok, "R12.4", fn2.loc(), fn2.fq, "two different bindings of one wildcard",
               "answer False as soon as a second distinct text is seen" if ok else "differing bindings of the same wildcard are not rejected")
    adds = [n for n in walk_own(fn2.node) if isinstance(n, ast.Call) and isinstance(n.func, ast.Attribute) and n.func.attr == "add"]
    cmp_ok = any("unparse(" in norm(a) for a in adds)
    res.decide(cmp_ok, "R12.4", fn2.loc(), fn2.fq, "bindings compared by their source text", "unparse of the bound tree" if cmp_ok else "bound trees are not compared by unparsed text")
    # _match_tuple: OR semantics
    fn3 = prog.func("core", "_match_tuple")
    loops = [n for n in walk_own(fn3.node) if isinstance(n, ast.For)]
    ok = False
    if loops:
        l = loops[0]
        inner = [s for s in l.body if isinstance(s, ast.If)]
        ok = bool(inner) and isinstance(inner[0].body[-1], ast.Return) and "match_template(" in norm(inner[0].test) \
            and isinstance(fn3.node.body[-1], ast.Return) and norm(fn3.node.body[-1].value) == "()" and norm(l.iter) == fn3.posparams[1]
    res.decide(ok, "R12.4", fn3.loc(), fn3.fq, "tuple template = alternatives", "first matching alternative wins, () if none" if ok else "tuple templates no longer mean OR over all alternatives")
    # match_template dispatch
    fn4 = prog.func("core", "match_template")
    node_p, tmpl_p = fn4.posparams[:2]
    texts = [norm(s).replace("_isinstance_cache(", "isinstance(") for s in fn4.node.body]
    type_branch = any(f"isinstance({tmpl_p}, type)" in t and f"isinstance({node_p}, {tmpl_p})" in t for t in texts)
    res.decide(type_branch, "R12.4", fn4.loc(), fn4.fq, "type template", "matches exactly the instances of the type" if type_branch else "type templates no longer test isinstance(node, template)")
    ast_branch = any(f"isinstance({node_p}, type({tmpl_p}))" in t and "_match_template_vars" in t for t in texts)
    res.decide(ast_branch, "R12.4", fn4.loc(), fn4.fq, "AST template", "requires the node to be of the template's class, then compares fields" if ast_branch else "AST templates no longer require the same node class")
    from ..model import default_return
    last = default_return(prog, fn4) or fn4.node
    texts = [norm(x).replace("_isinstance_cache(", "isinstance(") for x in walk_own(fn4.node) if isinstance(x, (ast.If, ast.Return))]
    eq_branch = any(f"{node_p} == {tmpl_p}" in t or f"{tmpl_p} == {node_p}" in t for t in texts) and isinstance(last, ast.Return) and norm(last.value) == "()"
    res.decide(eq_branch, "R12.4", fn4.loc(last), fn4.fq, "leaf values", "compared by equality, default is no match" if eq_branch else "leaf comparison / default no-match changed")
    const_branch = any(f"{node_p} is {tmpl_p}" in t or f"{tmpl_p} is {node_p}" in t for t in texts)
    res.decide(const_branch, "R12.4", fn4.loc(), fn4.fq, "True/False/None templates", "matched by identity (1 does not match True)" if const_branch else "singleton templates no longer matched by identity")
    # _match_wildcard binds the node matched by the wildcard's own template
    fn5 = prog.func("core", "_match_wildcard")
    t5 = norm(fn5.node)
    inner = [c for c in prog.calls_in(fn5) if norm(c.func) == "match_template" and len(c.args) >= 2
             and norm(c.args[0]) == fn5.posparams[0] and norm(c.args[1]) == f"{fn5.posparams[1]}.template"]
    mvar = None
    for c in inner:
        st = parent(c)
        if isinstance(st, ast.Assign) and isinstance(st.targets[0], ast.Name):
            mvar = st.targets[0].id
    # every answer `match` is given only after the wildcard's own template matched (or for the untyped wildcard, whose template
    # `object` matches everything) - read off the conditions of each return, whatever the shape of the tests
    ok, why = bool(inner) and mvar is not None, "the node is never matched against the wildcard's own template"
    if ok:
        tparam = fn5.posparams[1]
        for conds, value in _return_cases(fn5.node.body, []):
            for conds2, leaf in _expr_cases(value, list(conds)):
                if isinstance(leaf, ast.Tuple) and not leaf.elts:
                    continue
                matched = any(_inner_truth(t, pol, mvar) is True for t, pol in conds2)
                untyped = any(pol and f"{tparam}.template is object" in norm(t) and not (isinstance(t, ast.BoolOp) and isinstance(t.op, ast.Or)) for t, pol in conds2)
                if not (matched or untyped):
                    ok, why = False, f"`return {short(leaf, 60)}` answers a match without `{mvar}` being a successful match of the wildcard's own template"
    res.decide(ok, "R12.4", fn5.loc(), fn5.fq, "wildcard", "binds the node only if it matches the wildcard's template" if ok else why)
    # _match_set: every element must match one of the alternatives
    fn6 = prog.func("core", "_match_set")
    t6 = norm(fn6.node)
    p_node, p_tmpl = fn6.posparams[0], fn6.posparams[1]
    gens = [g for g in walk_own(fn6.node) if isinstance(g, (ast.GeneratorExp, ast.ListComp)) and len(g.generators) == 1
            and norm(g.generators[0].iter) == p_node and not g.generators[0].ifs and isinstance(g.generators[0].target, ast.Name)
            and isinstance(g.elt, ast.Call) and norm(g.elt.func) == "match_template" and len(g.elt.args) >= 2
            and norm(g.elt.args[0]) == g.generators[0].target.id and norm(g.elt.args[1]) == f"tuple({p_tmpl})"]
    ok = bool(gens) and "merge_matches(" in t6 and f"isinstance({p_node}, list)" in t6
    res.decide(ok, "R12.4", fn6.loc(), fn6.fq, "set template", "every element matches one of the alternatives" if ok else "set templates changed meaning")


# ------------------------------------------------------------------------------------------------ R12.6
NON_SEMANTIC_FIELDS = {"type_comment"}      # comments; every other field of a node is part of the program


def _tests_value_of(test: ast.AST, field: str) -> bool:
    """The truth of `test` is the truth of the VALUE of the attribute `field` (not of its existence)."""
    if isinstance(test, ast.Attribute):
        return test.attr == field
    if isinstance(test, ast.Call) and norm(test.func) == "getattr" and len(test.args) == 3:
        return isinstance(test.args[1], ast.Constant) and test.args[1].value == field
    if isinstance(test, ast.BoolOp):
        return any(_tests_value_of(v, field) for v in test.values)
    return False


def _r12_6(prog: Program, res: Result) -> None:
    """The template compiler rebuilds some node kinds by hand (visit_FunctionDef, visit_ClassDef, ...).  A field of the
    node class that is not passed to the constructor is ABSENT from the compiled template, and the matcher only compares
    the fields a template has: `def f(x)` then matches `def f[T](x)`.  For every visit_K of the transformer that
    constructs ast.K, the keywords passed (directly or through a `**kwargs` dict filled in the method) must cover
    K._fields of the running interpreter, comments aside."""
    n = 0
    for fn in prog.funcs.values():
        if not (fn.mod.name == "core" and "_NameWildcardTransformer.visit_" in fn.qual):
            continue
        kind = fn.qual.split("visit_")[-1]
        cls = getattr(ast, kind, None)
        if cls is None or not hasattr(cls, "_fields"):
            continue
        ctor = [c for c in prog.calls_in(fn) if norm(c.func) == f"ast.{kind}"]
        if not ctor:
            continue
        n += 1
        dict_keys = {}
        by_value = {}
        for a in walk_own(fn.node):
            if isinstance(a, ast.Assign) and isinstance(a.targets[0], ast.Subscript) and isinstance(a.targets[0].value, ast.Name) \
                    and isinstance(a.targets[0].slice, ast.Constant):
                key = str(a.targets[0].slice.value)
                dict_keys.setdefault(a.targets[0].value.id, set()).add(key)
                # the entry is made under a condition: a test of the field's VALUE (`if node.F:`, `if getattr(node, "F", None):`)
                # leaves the field out when it is empty - and an empty list is a value the matcher has to compare
                p_ = parent(a)
                while p_ is not None and p_ is not fn.node:
                    if isinstance(p_, ast.If) and _tests_value_of(p_.test, key):
                        by_value[key] = p_
                    p_ = parent(p_)
        for c in ctor:
            passed = {k.arg for k in c.keywords if k.arg}
            for k in c.keywords:
                if k.arg is None and isinstance(k.value, ast.Name):
                    passed |= dict_keys.get(k.value.id, set())
            passed |= set(cls._fields[:len(c.args)])
            missing = [f for f in cls._fields if f not in passed and f not in NON_SEMANTIC_FIELDS]
            for f in sorted(set(by_value) & passed):
                res.bad("R12.6", fn.loc(by_value[f]), fn.fq, f"ast.{kind}(..) # the field {f} is carried over only when it is not empty",
                        f"`{short(by_value[f].test)}` is false for an empty {f}, the compiled template then has no such field and the matcher "
                        f"compares nothing there: the pattern without {f} matches code with it (`def f(x)` matches `def f[T](x)`)")
            res.decide(not missing, "R12.6", fn.loc(c), fn.fq, f"ast.{kind}(..) rebuilt with fields {sorted(passed)}",
                       f"all fields of ast.{kind} are carried over" if not missing else
                       f"field(s) {missing} of ast.{kind} are not carried over into the compiled template: the matcher never compares them, so patterns match nodes "
                       f"that differ there (`def f(x)` matches `def f[T](x)`)")
    # a visit_K that is an ALIAS of another method (`visit_AsyncFunctionDef = _visit_function_definition`): the shared method must
    # build the class of the node it was given - a constructor written out for one kind turns every other kind into it
    # (`async def` patterns compile to plain function templates)
    for mod in prog.modules.values():
        if mod.name != "core":
            continue
        for cd in ast.walk(mod.tree):
            if not (isinstance(cd, ast.ClassDef) and any("NodeTransformer" in norm(b) for b in cd.bases)):
                continue
            for a in cd.body:
                if not (isinstance(a, ast.Assign) and isinstance(a.value, ast.Name) and all(isinstance(t, ast.Name) and t.id.startswith("visit_") for t in a.targets)):
                    continue
                helper = prog.funcs.get((mod.name, f"{cd.name}.{a.value.id}"))
                if helper is None:
                    continue
                for t in a.targets:
                    kind = t.id[len("visit_"):]
                    if not hasattr(ast, kind):
                        continue
                    n += 1
                    built = {norm(c.func) for c in prog.calls_in(helper) if norm(c.func).startswith("ast.") and hasattr(ast, norm(c.func)[4:])
                             and isinstance(getattr(ast, norm(c.func)[4:]), type) and issubclass(getattr(ast, norm(c.func)[4:]), (ast.stmt, ast.expr))
                             and any(k.arg in ("body", "name", "args") for k in c.keywords)}
                    generic = any(isinstance(c.func, ast.Call) and norm(c.func.func) == "type" for c in prog.calls_in(helper))
                    wrong = sorted(b for b in built if b != f"ast.{kind}")
                    res.decide(not wrong or (generic and not built), "R12.6", helper.loc(), helper.fq, f"{t.id} = {a.value.id} # node class built by a shared visitor",
                               f"builds ast.{kind} / the class of the node" if not wrong else
                               f"the shared visitor builds {wrong[0]} whatever it is given: a pattern containing a {kind} compiles to a {wrong[0][4:]} template, no longer matches "
                               f"its own text and matches {wrong[0][4:]} nodes instead")
    res.analysed["rebuilt_node_kinds"] = n


# ------------------------------------------------------------------------------------------------ R12.13
def _r12_14(prog: Program, res: Result) -> None:
    """A named wildcard stands for the same tree at every occurrence: `_all_fields_consistent` compares the bindings of every field of the
    partial matches - except the fields it skips by name (`key != "root"`: the field in which merge_matches keeps the matched node).
    A wildcard the USER calls by a skipped name is therefore never compared (`{{root}} = {{root}}` matches `a = b`), and its binding is
    overwritten.  Obligation: every name the consistency test skips is a name compile_template does not hand out to a user wildcard -
    the function that builds `Wildcard(name, ..)` from the user's names compares the name with that constant (refusal or renaming)."""
    chk = prog.funcs.get(("core", "_all_fields_consistent"))
    comp = prog.funcs.get(("core", "compile_template"))
    if chk is None or comp is None:
        raise AnalysisError("anchor core._all_fields_consistent / core.compile_template not found")
    skipped = []
    for c in walk_own(chk.node):
        if isinstance(c, ast.Compare) and len(c.ops) == 1 and isinstance(c.ops[0], (ast.NotEq, ast.Eq)) and isinstance(c.left, ast.Name) \
                and isinstance(c.comparators[0], ast.Constant) and isinstance(c.comparators[0].value, str):
            skipped.append((c, c.comparators[0].value))
    if not skipped:
        res.ok("R12.14", chk.loc(), chk.fq, "field names exempt from the consistency test", "none: every field is compared", trivial=True)
        return
    known_to_compiler = {x.value for c in walk_own(comp.node) if isinstance(c, ast.Compare) for x in ast.walk(c) if isinstance(x, ast.Constant) and isinstance(x.value, str)}
    for c, name in skipped:
        ok = name in known_to_compiler
        res.decide(ok, "R12.14", chk.loc(c), chk.fq, f"{short(c, 40)} # a field name exempt from the consistency test",
                   f"compile_template treats a user wildcard named `{name}` separately" if ok else
                   f"the field `{name}` is never compared and compile_template hands the name out like any other: a wildcard the user calls `{{{{{name}}}}}` is not checked "
                   f"for consistency between its occurrences (`{{{{{name}}}}} = {{{{{name}}}}}` matches `a = b`) and its binding is replaced by the matched node")


def _r12_13(prog: Program, res: Result) -> None:
    """The expansion generator yields `[template] * count` per element.  R12.1 decides the (min, max) table; this rule decides
    that the counts which reach the yield are taken FROM that table: each count is a component of an element of
    itertools.product(<the ranges>) (filtering the product is fine), or - when it is computed, e.g. as what the other
    elements leave of the length - it is tested for membership in its range / against both of its ends.  A computed
    remainder that is only compared with the lower end repeats a `?` element twice."""
    from ..defuse import bindings
    fn = prog.func("core", "_iter_template_permutations")
    binds = bindings(fn)

    def origin(e: ast.AST, depth: int = 0) -> Tuple[str, Optional[ast.AST]]:
        """('product', None) | ('computed', offending expr) | ('unknown', e)"""
        if depth > 8:
            return "unknown", e
        if isinstance(e, ast.Call):
            d = norm(e.func)
            if d.endswith("product"):
                return "product", None
            if d in ("list", "tuple", "iter", "sorted", "filter") and e.args:
                return origin(e.args[-1], depth + 1)
            return "unknown", e
        if isinstance(e, (ast.GeneratorExp, ast.ListComp)) and len(e.generators) == 1:
            g = e.generators[0]
            if isinstance(e.elt, ast.Name) and isinstance(g.target, ast.Name) and e.elt.id == g.target.id:
                return origin(g.iter, depth + 1)       # a filtered copy
            return "unknown", e
        if isinstance(e, ast.Starred):
            return origin(e.value, depth + 1)
        if isinstance(e, ast.Subscript):
            return origin(e.value, depth + 1)          # a slice / component of an element of the product
        if isinstance(e, (ast.Tuple, ast.List)):
            for x in e.elts:
                k, bad = origin(x, depth + 1)
                if k != "product":
                    return k, bad
            return "product", None
        if isinstance(e, ast.BinOp) and isinstance(e.op, ast.Add):
            for x in (e.left, e.right):
                k, bad = origin(x, depth + 1)
                if k != "product":
                    return k, bad
            return "product", None
        if isinstance(e, ast.Name):
            defs = binds.get(e.id, [])
            if not defs:
                return "unknown", e
            if e.id in active:
                return "product", None      # `xs = (x for x in xs if ..)`: the other definitions of xs decide
            active.add(e.id)
            try:
                return _name_origin(e, defs, depth)
            finally:
                active.discard(e.id)
        return "unknown", e

    active: set = set()

    def _name_origin(e, defs, depth):
        if True:
            for st_, v in defs:
                if v is None and isinstance(st_, (ast.For, ast.AsyncFor)):
                    k, bad = origin(st_.iter, depth + 1)
                elif v is not None and isinstance(v, (ast.BinOp, ast.UnaryOp)) and not (isinstance(v, ast.BinOp) and isinstance(v.op, ast.Add) and any(isinstance(x, (ast.Tuple, ast.List, ast.Starred)) for x in (v.left, v.right))):
                    return "computed", e
                elif v is not None and isinstance(v, ast.Call) and norm(v.func) in ("sum", "len", "max", "min", "abs", "int"):
                    return "computed", e
                elif v is not None:
                    k, bad = origin(v, depth + 1)
                else:
                    return "unknown", e
                if k != "product":
                    return k, bad
            return "product", None
        return "unknown", e

    n = 0
    for y in walk_own(fn.node):
        if not isinstance(y, ast.Yield) or y.value is None:
            continue
        for m in ast.walk(y.value):
            if not (isinstance(m, ast.BinOp) and isinstance(m.op, ast.Mult) and isinstance(m.right, ast.Name) and isinstance(m.left, (ast.List, ast.Tuple))):
                continue
            cnt = m.right.id
            src = None
            for c in ast.walk(y.value):
                for g in getattr(c, "generators", []) or []:
                    if any(isinstance(t, ast.Name) and t.id == cnt for t in ast.walk(g.target)):
                        it = g.iter
                        if isinstance(it, ast.Call) and norm(it.func) == "zip" and len(it.args) == 2:
                            src = it.args[1]
            n += 1
            if src is None:
                res.undecided("R12.13", fn.loc(y), fn.fq, short(y, 80), "the repetition count is not paired with the elements by zip(keys, counts)")
                continue
            kind, bad = origin(src)
            if kind == "product":
                res.ok("R12.13", fn.loc(y), fn.fq, f"{short(m, 60)} # repetition count of a yielded expansion", "every count is a component of an element of the product of the ranges")
            elif kind == "computed" and isinstance(bad, ast.Name):
                tests = [c for c in walk_own(fn.node) if isinstance(c, ast.Compare) and any(isinstance(x, ast.Name) and x.id == bad.id for x in [c.left] + c.comparators)]
                member = any(isinstance(op, (ast.In, ast.NotIn)) for c in tests for op in c.ops)
                lower = upper = False
                for c in tests:
                    operands = [c.left] + list(c.comparators)
                    for i_, op in enumerate(c.ops):
                        left_is = isinstance(operands[i_], ast.Name) and operands[i_].id == bad.id
                        right_is = isinstance(operands[i_ + 1], ast.Name) and operands[i_ + 1].id == bad.id
                        if isinstance(op, (ast.Lt, ast.LtE)):
                            lower |= left_is
                            upper |= right_is
                        if isinstance(op, (ast.Gt, ast.GtE)):
                            upper |= left_is
                            lower |= right_is
                # `x < lo` (x on the left of <) tests the LOWER end, `x > hi` the upper one
                ok = member or (lower and upper)
                res.decide(ok, "R12.13", fn.loc(y), fn.fq, f"{short(m, 60)} # repetition count of a yielded expansion",
                           f"the computed count `{bad.id}` is tested against its range" if ok else
                           f"the count `{bad.id}` is computed, not drawn from the range of its element, and is "
                           f"{'only tested against one end of it' if lower or upper else 'never tested against it'}: "
                           "an element is repeated more often (or less often) than its quantifier allows - `[a*, b?]` matches `[1, 'x', 'x']`")
            else:
                res.undecided("R12.13", fn.loc(y), fn.fq, f"{short(m, 60)} # repetition count of a yielded expansion", f"origin of the counts not readable: {short(bad, 40) if bad is not None else '?'}")
    if n == 0:
        res.undecided("R12.13", fn.loc(), fn.fq, "yielded expansion", "no `[template] * count` under a yield")


# ------------------------------------------------------------------------------------------------ R12.10
TEMPLATE_KINDS = {            # kind of template -> classes an object of that kind is an instance of (as spelled in core.py)
    "type": {"type"},
    "tuple": {"tuple"},
    "Wildcard": {"Wildcard", "ast.AST"},          # core.Wildcard derives from ast.AST: the order of the tests matters
    "ast.AST": {"ast.AST"},
}


def _always_returns(stmts) -> bool:
    if not stmts:
        return False
    last = stmts[-1]
    return isinstance(last, (ast.Return, ast.Raise)) or (isinstance(last, ast.If) and _always_returns(last.body) and _always_returns(last.orelse))


def _return_cases(stmts, conds):
    """(conditions, returned expression) for every return of a straight if/return body; conditions are (test, polarity)."""
    conds = list(conds)
    for st in stmts:
        if isinstance(st, ast.If):
            yield from _return_cases(st.body, conds + [(st.test, True)])
            yield from _return_cases(st.orelse, conds + [(st.test, False)])
            body_exits, else_exits = _always_returns(st.body), _always_returns(st.orelse)
            if body_exits and else_exits:
                return
            if body_exits:
                conds.append((st.test, False))
            elif else_exits:
                conds.append((st.test, True))
        elif isinstance(st, ast.Return):
            yield conds, st.value
            return
        elif isinstance(st, ast.Raise):
            return


def _expr_cases(e, conds):
    if isinstance(e, ast.IfExp):
        yield from _expr_cases(e.body, conds + [(e.test, True)])
        yield from _expr_cases(e.orelse, conds + [(e.test, False)])
    else:
        yield conds, e


def _kind_truth(test: ast.AST, var: str, kind: str):
    """Truth of a test for an object of the template kind `kind` bound to `var`: True / False / None (does not say)."""
    if isinstance(test, ast.UnaryOp) and isinstance(test.op, ast.Not):
        t = _kind_truth(test.operand, var, kind)
        return None if t is None else not t
    if isinstance(test, ast.BoolOp):
        ts = [_kind_truth(v, var, kind) for v in test.values]
        if isinstance(test.op, ast.And):
            return False if False in ts else (None if None in ts else True)
        return True if True in ts else (None if None in ts else False)
    if isinstance(test, ast.Call) and norm(test.func) in ("isinstance", "_isinstance_cache") and len(test.args) == 2 \
            and isinstance(test.args[0], ast.Name) and test.args[0].id == var:
        classes = test.args[1].elts if isinstance(test.args[1], ast.Tuple) else [test.args[1]]
        names = {norm(c) for c in classes}
        if names & TEMPLATE_KINDS[kind]:
            return True
        if names <= {"type", "tuple", "Wildcard", "ast.AST", "list", "set", "frozenset", "str", "int"}:
            return False
    return None


def _r12_10(prog: Program, res: Result) -> None:
    """The search does not try every node: it first selects the node classes that `can match the template at all`.  That
    selection has to be a NECESSARY condition of a match for every kind of template the matcher interprets: a type matches
    its instances, a tree its own class - but a wildcard stands for what ITS template says, and alternatives for what each
    of them says.  Selecting by `type(template)` for those finds nothing: a pattern that is just a wildcard, or nested
    alternatives, is never reported although the matcher matches it."""
    fn = prog.funcs.get(("core", "walk_wildcard"))
    if fn is None:
        raise AnalysisError("anchor core.walk_wildcard not found")
    sites = [c for c in prog.calls_in(fn) if norm(c.func) in ("issubclass", "_issubclas_cache") and len(c.args) == 2]
    for c in sites:
        sel = c.args[1]
        hops = 0
        while isinstance(sel, ast.Name) and hops < 4:
            d = single_def_in(fn, sel.id)
            if d is None:
                break
            sel, hops = d, hops + 1
        # the selection as cases over the template
        helper, var, cases = None, None, None
        if isinstance(sel, ast.Call) and len(sel.args) == 1 and isinstance(sel.args[0], ast.Name):
            r = prog.resolve_call(sel.func, fn.mod, fn)
            callee = r[1] if r and r[0] == "fn" else None
            if callee is not None and len(callee.posparams) >= 1:
                helper, var = callee, callee.posparams[0]
                cases = list(_return_cases(callee.node.body, []))
        if cases is None:
            names = [n.id for n in ast.walk(sel) if isinstance(n, ast.Name)]
            loop_vars = [norm(l.target) for l in walk_own(fn.node) if isinstance(l, ast.For)]
            var = next((n for n in names if n in loop_vars), None)
            if var is None:
                res.undecided("R12.10", fn.loc(c), fn.fq, short(c, 80), "the selection of candidate classes is not derived from the template of the loop")
                continue
            cases = list(_expr_cases(sel, []))
        where_fn = helper or fn
        for kind in TEMPLATE_KINDS:
            verdicts = []
            for conds, value in cases:
                truths = [(_kind_truth(t, var, kind), pol) for t, pol in conds]
                if any(t is not None and t != pol for t, pol in truths):
                    continue                      # not the case of this kind
                verdicts.append((conds, value, _selection_adequate(value, var, kind, helper, conds)))
            if not verdicts:
                res.bad("R12.10", where_fn.loc(), where_fn.fq, f"candidate classes for a template of kind {kind}",
                        "no case of the selection covers this kind of template")
                continue
            for conds, value, (ok, why) in verdicts:
                res.decide(ok, "R12.10", where_fn.loc(value), where_fn.fq, f"{norm(value)} # candidate classes for a template of kind {kind}", why)


def single_def_in(fn: Func, name: str):
    defs = [v for _st, v in assignments(fn, name) if v is not None]
    return defs[0] if len(defs) == 1 else None


def _selection_adequate(value: ast.AST, var: str, kind: str, helper: Optional[Func], conds) -> Tuple[bool, str]:
    text = norm(value)
    everything = text in ("ast.AST", "object")
    if kind == "type":
        ok = text == var or everything
        return ok, "a type matches its instances: the type itself selects them" if ok else f"a type template matches instances of the type, `{text}` selects something else"
    if kind == "ast.AST":
        ok = text == f"type({var})" or everything
        return ok, "a tree matches nodes of its own class" if ok else f"a tree template matches nodes of its class, `{text}` selects something else"
    recursive = [c for c in ast.walk(value) if isinstance(c, ast.Call) and helper is not None and isinstance(c.func, ast.Name) and c.func.id == helper.node.name]
    if kind == "Wildcard":
        if everything:
            return True, "every node is a candidate"
        if any(len(c.args) == 1 and norm(c.args[0]) == f"{var}.template" for c in recursive) and value in recursive:
            return True, "decided by what the wildcard stands for"
        untyped = any(pol and norm(t).replace(" ", "") in (f"{var}.templateisobject", f"objectis{var}.template") for t, pol in conds)
        classes = value.elts if isinstance(value, ast.Tuple) else [value]
        if untyped and all(norm(k) in ("ast.expr", "ast.stmt", "ast.AST") for k in classes) and {"ast.expr", "ast.stmt"} <= {norm(k) for k in classes} | ({"ast.expr", "ast.stmt"} if "ast.AST" in {norm(k) for k in classes} else set()):
            return True, "an untyped wildcard: the expressions and statements, which is what the search reports"
        return False, (f"a wildcard matches what ITS template matches; `{text}` selects by the wildcard object itself, no node is an instance of that: "
                       "a pattern that is just a wildcard (`{{x}}`, a typed wildcard) is never found")
    if kind == "tuple":
        for comp in ast.walk(value):
            if isinstance(comp, (ast.GeneratorExp, ast.ListComp, ast.SetComp)) and norm(comp.generators[0].iter) == var and not comp.generators[0].ifs:
                tgt = norm(comp.generators[0].target)
                if any(c is comp.elt and len(c.args) == 1 and norm(c.args[0]) == tgt for c in recursive):
                    return True, "alternatives: the union of what each alternative selects"
        if everything:
            return True, "every node is a candidate"
        return False, (f"alternatives match what ANY of them matches; `{text}` selects by the tuple object itself: nested alternatives are never found")
    return False, "unknown kind"



# ------------------------------------------------------------------------------------------------ R12.11
POSITIONS = {"lineno", "col_offset", "end_lineno", "end_col_offset"}
SEARCH_ENTRIES = ("match_template", "walk_wildcard", "walk", "walk_sequence")


def _r12_11(prog: Program, res: Result) -> None:
    """One pattern language, several entry points: matching one node (match_template), searching nodes (walk_wildcard /
    walk) and searching statement sequences (walk_sequence).  What they ignore apart from positions has to be the same
    set, otherwise the same pattern matches the same code through one entry point and not through the other
    (`x = "a"` against `x = u"a"`: found as part of a two-statement pattern, not found alone).  The set in force is the
    default of the entry's own `ignore` parameter when it passes that on, else the default of the matcher it calls."""
    from ..model import ConstEval
    core = prog.module("core")

    def default_of(fn: Func, pname: str):
        args = fn.node.args
        pos = args.posonlyargs + args.args
        table = dict(zip([a.arg for a in pos][len(pos) - len(args.defaults):], args.defaults))
        table.update({a.arg: d for a, d in zip(args.kwonlyargs, args.kw_defaults) if d is not None})
        if pname not in table:
            raise Unresolvable(f"{fn.fq} has no default for {pname}")
        return set(ConstEval(prog, fn.mod).ev(table[pname]))

    matcher = prog.func("core", "match_template")
    try:
        reference = default_of(matcher, "ignore") - POSITIONS
    except Unresolvable as error:
        res.undecided("R12.11", matcher.loc(), matcher.fq, "default of ignore", str(error))
        return
    res.ok("R12.11", matcher.loc(), matcher.fq, f"ignored apart from positions: {sorted(reference)}", "the reference: matching one node")
    for name in SEARCH_ENTRIES[1:]:
        fn = prog.funcs.get(("core", name))
        if fn is None:
            raise AnalysisError(f"anchor core.{name} not found")
        for c in prog.calls_in(fn):
            r = prog.resolve_call(c.func, fn.mod, fn)
            if not (r and r[0] == "fn" and r[1].mod.name == "core" and r[1].node.name in SEARCH_ENTRIES):
                continue
            callee = r[1]
            passed = next((k.value for k in c.keywords if k.arg == "ignore"), None)
            if passed is None and len(c.args) > callee.posparams.index("ignore") if "ignore" in callee.posparams else False:
                passed = c.args[callee.posparams.index("ignore")]
            try:
                if passed is None:
                    if "ignore" not in callee.all_params:
                        continue            # decided at the callee's own calls
                    inforce, how = default_of(callee, "ignore"), f"the default of {callee.node.name}()"
                elif isinstance(passed, ast.Name) and passed.id in fn.all_params:
                    inforce, how = default_of(fn, passed.id), f"the default of the own parameter"
                else:
                    inforce, how = set(ConstEval(prog, fn.mod).ev(passed)), "the value passed"
            except Unresolvable as error:
                res.undecided("R12.11", fn.loc(c), fn.fq, f"{callee.node.name}(..) # what is ignored", str(error))
                continue
            extra = sorted((inforce - POSITIONS) ^ reference)
            res.decide(not extra, "R12.11", fn.loc(c), fn.fq, f"{callee.node.name}(..) # ignored apart from positions: {sorted(inforce - POSITIONS)}",
                       f"{how}: the same as for matching one node" if not extra else
                       f"{how}: differs from match_template() in {extra}: the same pattern matches the same code through one entry point and not through "
                       f"the other (`x = \"a\"` finds `x = u\"a\"` only as part of a longer statement pattern)")



# ------------------------------------------------------------------------------------------------ R12.12
def _inner_truth(test: ast.AST, pol: bool, tm: str):
    """What a test with polarity pol says about the inner match held by `tm`: True (matched), False (failed), None."""
    if isinstance(test, ast.UnaryOp) and isinstance(test.op, ast.Not):
        return _inner_truth(test.operand, not pol, tm)
    if isinstance(test, ast.BoolOp) and ((isinstance(test.op, ast.And) and pol) or (isinstance(test.op, ast.Or) and not pol)):
        for v in test.values:
            t = _inner_truth(v, pol, tm)
            if t is not None:
                return t
        return None
    text = norm(test).replace(" ", "")
    if text == tm:
        return pol
    if text in (f"len({tm})==0", f"0==len({tm})", f"{tm}==()", f"()=={tm}", f"len({tm})<1", f"1>len({tm})"):
        return not pol
    if text in (f"len({tm})>0", f"len({tm})>=1", f"len({tm})!=0", f"0<len({tm})", f"1<=len({tm})", f"{tm}!=()"):
        return pol
    if text in (f"len({tm})==1", f"1==len({tm})", f"len({tm})>1", f"1<len({tm})", f"len({tm})>=2") and pol:
        return True
    if text in (f"len({tm})<=1", f"1>=len({tm})", f"len({tm})<2") and not pol:
        return True
    return None


def _r12_12(prog: Program, res: Result) -> None:
    """A wildcard matches whatever its own template matches.  The wildcard matcher asks the matcher about that template
    and gets the empty tuple for `no`, anything else for `yes` - a one-tuple for a plain template, a longer record when
    the template has wildcards of its own.  Obligation: it answers `no match` only when the inner answer was the empty
    tuple (or the child is absent, R12.8); testing `len(..) == 1` turns every template with inner wildcards into one that
    never matches (`f({{x}})` with x = `{{y}} + 1` against `f(a + 1)`)."""
    fn = prog.funcs.get(("core", "_match_wildcard"))
    if fn is None:
        raise AnalysisError("anchor core._match_wildcard not found")
    node = fn.posparams[0]
    from ..defuse import bindings
    inner = [name for name in bindings(fn) if (d := single_def_in(fn, name)) is not None and isinstance(d, ast.Call)
             and norm(d.func) == "match_template"]
    if not inner:
        res.undecided("R12.12", fn.loc(), fn.fq, "the inner match", "no local holds the answer of match_template() for the wildcard's own template")
        return
    tm = inner[0]
    asked_at = single_def_in(fn, tm).lineno

    def says_no_inner(test: ast.AST, pol: bool) -> bool:
        if _inner_truth(test, pol, tm) is False:
            return True
        text = norm(test).replace(" ", "")
        if isinstance(test, ast.UnaryOp) and isinstance(test.op, ast.Not):
            return says_no_inner(test.operand, not pol)
        return pol and text in (f"{node}isNone", f"Noneis{node}")

    n = 0
    for conds, value in _return_cases(fn.node.body, []):
        for conds2, leaf in _expr_cases(value, list(conds)):
            if not (isinstance(leaf, ast.Tuple) and not leaf.elts):
                continue
            n += 1
            if leaf.lineno < asked_at:
                res.ok("R12.12", fn.loc(leaf), fn.fq, f"() # the answer no-match, case {n}", "given before the wildcard's own template is asked (absent child, R12.8)", trivial=True)
                continue
            ok = any(says_no_inner(t, pol) for t, pol in conds2)
            path = " and ".join(("" if pol else "not ") + f"({norm(t)})" for t, pol in conds2) or "always"
            res.decide(ok, "R12.12", fn.loc(leaf), fn.fq, f"() # the answer no-match, case {n}",
                       "only when the inner match failed or the child is absent" if ok else
                       f"answered when {path}: `no match` is answered although `{tm}` may be a successful inner match: a record longer than one element is the answer for a template "
                       "with wildcards of its own, so a typed wildcard whose template has wildcards never matches")
    if n == 0:
        res.undecided("R12.12", fn.loc(), fn.fq, "the `no match` answers", "no return of the empty tuple found")



# ------------------------------------------------------------------------------------------------ R12.5
def _r12_5(prog: Program, res: Result) -> None:
    """Search completeness of the list matcher: inside the loop over the quantifier expansions a `return` may only
    hand back a result whose truthiness was established on the path - returning a possibly empty merge from inside
    the loop gives up at the first expansion whose elements match one by one but bind a repeated wildcard
    inconsistently, although a later expansion matches (f({{...*}}, {{x}}, {{x}}, {{...*}}) on f(1, 2, 2, 3))."""
    fn = prog.func("core", "_match_list")
    pa = PathAnalysis(prog, fn)
    from ..defuse import bindings
    binds = bindings(fn)
    loops = []
    for n in walk_own(fn.node):
        if not isinstance(n, ast.For):
            continue
        src = n.iter
        if isinstance(src, ast.Name):
            defs = [v for (_s, v) in binds.get(src.id, []) if v is not None]
            if len(defs) == 1:
                src = defs[0]
        if isinstance(src, ast.Call) and (prog.dotted(src.func) or "").endswith("_iter_template_permutations"):
            loops.append(n)
    if not loops:
        res.undecided("R12.5", fn.loc(), fn.fq, "loop over _iter_template_permutations", "no such loop found: search written in an unrecognised way")
        return
    for loop in loops:
        inside = [r for r in ast.walk(loop) if isinstance(r, ast.Return)]
        for r in inside:
            text = norm(r.value) if r.value is not None else "None"
            worlds = pa.worlds_at(r)
            if isinstance(r.value, ast.Name):
                ok = bool(worlds) and pa.holds_at(r, lambda w, v=r.value: pa.formula(v, w))[0]
            else:
                ok = False
                # a literal non-empty tuple / constant truthy value is a success by construction
                if isinstance(r.value, ast.Tuple) and r.value.elts:
                    ok = True
            res.decide(ok, "R12.5", fn.loc(r), fn.fq, f"return {text} inside the expansion loop",
                       "returned only after it was tested to be a successful (non-empty) match" if ok else
                       "the search returns from inside the loop over quantifier expansions a value that may be the empty (failed) match: "
                       "later expansions are never tried, valid matches with repeated wildcards are lost")
        from ..model import returns_after
        tails = returns_after(fn.node, loop)
        tail = tails[0] if tails else loop
        ok = bool(tails) and all(norm(t.value) == "()" for t in tails)
        res.decide(ok, "R12.5", fn.loc(tail), fn.fq, "result after the loop is exhausted", "no match" if ok else "falling out of the expansion loop no longer means 'no match'")


def _r12_9(prog: Program, res: Result) -> None:
    """Leaf values are compared as CODE, not as Python values: `1 == True == 1.0` and `0 == False == 0.0 == 0j`, but `f(1)`,
    `f(True)` and `f(1.0)` are three different programs.  Wherever match_template answers a match because `node == template`,
    the path must also carry that the two have the same type."""
    from ..pathcond import PathAnalysis
    fn = prog.func("core", "match_template")
    node, tmpl = fn.posparams[:2]
    pa = PathAnalysis(prog, fn)
    eq = ast.parse(f"{node} == {tmpl}", mode="eval").body
    same = [ast.parse(t, mode="eval").body for t in (f"type({node}) is type({tmpl})", f"type({node}) == type({tmpl})", f"isinstance({node}, type({tmpl}))")]
    n = 0
    for r in walk_own(fn.node):
        if not isinstance(r, ast.Return) or r.value is None or (isinstance(r.value, ast.Tuple) and not r.value.elts):
            continue
        if not pa.holds_at(r, lambda w: pa.formula(eq, w))[0]:
            continue      # this return is not justified by value equality
        n += 1
        ok = any(pa.holds_at(r, lambda w, t=t: pa.formula(t, w))[0] for t in same)
        res.decide(ok, "R12.9", fn.loc(r), fn.fq, f"{short(r, 50)} # after {node} == {tmpl}",
                   "equal values of the same type" if ok else
                   "a leaf matches whenever the VALUES are equal: the pattern `f(1)` also reports `f(True)` and `f(1.0)`, `x = 0` reports `x = False` and `x = 0.0`")
    if n == 0:
        res.undecided("R12.9", fn.loc(), fn.fq, "leaf comparison", "no return justified by value equality found")


def _r12_8(prog: Program, res: Result) -> None:
    """A wildcard stands for SOME syntax tree.  An optional child that is absent (the value of a bare `return`, the type of a
    bare `except:`, the bounds of `a[:]`, a missing annotation) is None in the tree, and `isinstance(None, object)` holds - so
    an untyped wildcard used to match it, bind None, and the substitution then called unparse(None).  Obligation: every
    return of a successful match from the wildcard matcher is reached only when the node is known not to be None."""
    from ..pathcond import PathAnalysis
    fn = prog.funcs.get(("core", "_match_wildcard"))
    if fn is None:
        raise AnalysisError("anchor core._match_wildcard not found")
    node = fn.posparams[0]
    pa = PathAnalysis(prog, fn)
    test = ast.parse(f"{node} is None", mode="eval").body
    for r in walk_own(fn.node):
        if not isinstance(r, ast.Return) or r.value is None:
            continue
        if isinstance(r.value, ast.Tuple) and not r.value.elts:
            res.ok("R12.8", fn.loc(r), fn.fq, norm(r), "answers 'no match'", trivial=True)
            continue
        ok, _why = pa.holds_at(r, lambda w: pa.formula(test, w, False))
        res.decide(ok, "R12.8", fn.loc(r), fn.fq, short(r, 80),
                   f"reached only when `{node}` is not None" if ok else
                   f"a match can be answered for `{node} is None`: the wildcard then stands for an absent child (`return {{{{x}}}}` matches a bare `return`, "
                   "`except {{e}}:` a bare `except:`), binds None, and format_template / the rules that use the binding call unparse(None)")


def _r12_7(prog: Program, res: Result) -> None:
    """Every element of a list pattern takes part, as written: the list matcher and the generator of quantifier expansions
    count over the template they were GIVEN.  The template parameter is never rebound, sliced, filtered or edited in place
    (merging `[x+, x+]` into `[x+]` accepts a single element where the regular-expression reading demands two), the loops
    that fill the count table / the length bounds iterate that parameter, and the matcher hands the same object on."""
    from ..pathcond import MUTATORS
    for name, ppos in (("_iter_template_permutations", 0), ("_match_list", 1), ("_match_tuple", 1), ("_match_set", 1)):
        fn = prog.funcs.get(("core", name))
        if fn is None:
            raise AnalysisError(f"anchor core.{name} not found")
        if len(fn.posparams) <= ppos:
            raise AnalysisError(f"core.{name}: template parameter not found")
        t = fn.posparams[ppos]
        def same_elements(v: ast.AST) -> bool:
            # list(t) / tuple(t) / t[:] / copy.copy(t): the same elements in the same order
            if isinstance(v, ast.Call) and norm(v.func) in ("list", "tuple", "copy.copy") and len(v.args) == 1 and not v.keywords:
                return isinstance(v.args[0], ast.Name) and v.args[0].id == t
            return isinstance(v, ast.Subscript) and isinstance(v.value, ast.Name) and v.value.id == t and isinstance(v.slice, ast.Slice) \
                and v.slice.lower is None and v.slice.upper is None and v.slice.step is None
        rebinds = [n for n in ast.walk(fn.node) if isinstance(n, ast.Name) and n.id == t and isinstance(n.ctx, (ast.Store, ast.Del))
                   and not (isinstance(parent(n), ast.Assign) and len(parent(n).targets) == 1 and same_elements(parent(n).value))]
        edits = [n for n in ast.walk(fn.node) if isinstance(n, ast.Call) and isinstance(n.func, ast.Attribute) and n.func.attr in MUTATORS
                 and isinstance(n.func.value, ast.Name) and n.func.value.id == t]
        edits += [n for n in ast.walk(fn.node) if isinstance(n, ast.Subscript) and isinstance(n.ctx, (ast.Store, ast.Del)) and isinstance(n.value, ast.Name) and n.value.id == t]
        bad = rebinds + edits
        res.decide(not bad, "R12.7", fn.loc(bad[0]) if bad else fn.loc(), fn.fq, f"{t} # the pattern list as given",
                   "never rebound or edited: every pattern element is counted and matched" if not bad else
                   f"line {bad[0].lineno}: the pattern list is replaced or edited before it is matched; elements that are dropped or merged no longer constrain the code "
                   "([x+, x+] must need two elements, [x?, x?] must allow two)")
    # the matcher passes its own template on to the expansion generator
    ml = prog.func("core", "_match_list")
    gen = prog.func("core", "_iter_template_permutations")
    calls = [c for c in prog.calls_in(ml) if (prog.resolve_call(c.func, ml.mod, ml) or (None, None))[1] is gen]
    if not calls:
        res.undecided("R12.7", ml.loc(), ml.fq, "expansions of the pattern list", "call of _iter_template_permutations not found")
    for c in calls:
        ok = bool(c.args) and isinstance(c.args[0], ast.Name) and c.args[0].id == ml.posparams[1] and len(c.args) > 1 and norm(c.args[1]).replace(" ", "") == f"len({ml.posparams[0]})"
        res.decide(ok, "R12.7", ml.loc(c), ml.fq, short(c, 80), "expansions of the whole pattern list for the whole node list" if ok else
                   "the expansions are not generated from (the pattern list as given, the length of the node list)")


# ---------------------------------------------------------------------------------------------- self-test
from ..selftest import Variant  # noqa: E402

VARIANTS = [
    Variant("reserved-field-name-refused-by-the-compiler", "REPAIRED", "core",
            "        wildcard_placeholder_name = f\"____wildcard__{name}____\"\n", "        if name == \"root\":\n            raise ValueError(\"The name root is that of the field with the matched node\")\n        wildcard_placeholder_name = f\"____wildcard__{name}____\"\n", "R12.14"),
    Variant("second-field-exempt-from-the-consistency-test", "FIRE", "core",
            "            if key != \"root\" and key not in ignore:", "            if key != \"root\" and key != \"name\" and key not in ignore:", "R12.14"),
    Variant("last-count-is-what-the-others-leave-lower-end-only", "FIRE", "core", '    keys = node_counts.keys()\n    permutations = itertools.product(*(node_counts[key] for key in keys))\n    permutations = (p for p in permutations if sum(p) == length)\n\n    for permutation in permutations:\n        yield sum(([key[1]] * count for key, count in zip(keys, permutation)), [])\n', '    keys = list(node_counts)\n    if not keys:\n        if length == 0:\n            yield []\n        return\n\n    ranges = [node_counts[key] for key in keys]\n    last = max((i for i, counts in enumerate(ranges) if len(counts) > 1), default=0)\n    for counts in itertools.product(*ranges[:last], *ranges[last + 1 :]):\n        remainder = length - sum(counts)\n        if remainder < ranges[last].start:\n            continue\n\n        permutation = (*counts[:last], remainder, *counts[last:])\n        yield sum(([key[1]] * count for key, count in zip(keys, permutation)), [])\n', "R12.13"),
    Variant("last-count-is-what-the-others-leave-tested-for-membership", "SILENT", "core", '    keys = node_counts.keys()\n    permutations = itertools.product(*(node_counts[key] for key in keys))\n    permutations = (p for p in permutations if sum(p) == length)\n\n    for permutation in permutations:\n        yield sum(([key[1]] * count for key, count in zip(keys, permutation)), [])\n', '    keys = list(node_counts)\n    if not keys:\n        if length == 0:\n            yield []\n        return\n\n    ranges = [node_counts[key] for key in keys]\n    last = max((i for i, counts in enumerate(ranges) if len(counts) > 1), default=0)\n    for counts in itertools.product(*ranges[:last], *ranges[last + 1 :]):\n        remainder = length - sum(counts)\n        if remainder not in ranges[last]:\n            continue\n\n        permutation = (*counts[:last], remainder, *counts[last:])\n        yield sum(([key[1]] * count for key, count in zip(keys, permutation)), [])\n'),
    Variant("leaf-values-compared-by-equality-only", "FIRE", "core", "    if type(node) is type(template) and node == template:\n        return (node,)", "    if node == template:\n        return (node,)", "R12.9"),
    Variant("leaf-type-test-as-early-exit", "SILENT", "core", "    if type(node) is type(template) and node == template:\n        return (node,)",
            "    if type(node) is not type(template):\n        return ()\n\n    if node == template:\n        return (node,)"),
    Variant("wildcard-matches-absent-child", "FIRE", "core",
            "    if node is None:\n        # An optional child that is absent, like the value of a bare return. A wildcard stands for\n        # some piece of code, and there is none.\n        return ()\n\n", "", "R12.8"),
    Variant("wildcard-absent-child-tested-by-isinstance", "SILENT", "core",
            "    if node is None:\n        # An optional child that is absent, like the value of a bare return. A wildcard stands for\n        # some piece of code, and there is none.\n        return ()\n",
            "    if node is None or template is None:\n        return ()\n"),
    Variant("pattern-list-copied", "SILENT", "core", "    node_counts = {}\n    for i, node in enumerate(template):", "    template = list(template)\n    node_counts = {}\n    for i, node in enumerate(template):"),
    Variant("pattern-list-deduplicated", "FIRE", "core", "    node_counts = {}\n    for i, node in enumerate(template):",
            "    template = [node for i, node in enumerate(template) if i == 0 or node != template[i - 1] or not isinstance(node, ZeroOrMany)]\n    node_counts = {}\n    for i, node in enumerate(template):", "R12.7"),
    Variant("class-pattern-without-type-params", "FIRE", "core",
            "            decorator_list=new_decorators,\n            body=new_body,\n            **kwargs,\n        )", "            decorator_list=new_decorators,\n            body=new_body,\n        )", "R12.6"),
    Variant("return-unchecked-merge-from-expansion-loop", "FIRE", "core",
            "        merged = merge_matches(permutation, matches)\n        if merged:\n            return merged\n",
            "        return merge_matches(permutation, matches)\n", "R12.5"),
    Variant("inline-permutations-rename-merged", "SILENT", "core",
            "    permutations = _iter_template_permutations(template, len(nodes))\n\n    for permutation in permutations:\n        matches = (\n            match_template(child, template_child, ignore=ignore)\n            for child, template_child in zip(nodes, permutation)\n        )\n        merged = merge_matches(permutation, matches)\n        if merged:\n            return merged\n",
            "    for permutation in _iter_template_permutations(template, len(nodes)):\n        matches = [\n            match_template(child, template_child, ignore=ignore)\n            for child, template_child in zip(nodes, permutation)\n        ]\n        result = merge_matches(permutation, matches)\n        if not result:\n            continue\n        return result\n"),
    Variant("empty-type-params-not-carried-over", "FIRE", "core", '        if hasattr(node, "type_params"):  # class A[T]', '        if getattr(node, "type_params", None):  # class A[T]', "R12.6"),
    Variant("absent-template-field-never-fails", "FIRE", "core", "        if k not in n_vars and not (t_vars[k] is None or t_vars[k] == []):\n", "        if False and k not in n_vars:\n", "R12.3"),
    Variant("absent-field-test-spelled-with-keys", "SILENT", "core", "    for k in t_vars:\n        if k in ignore:", "    for k in t_vars.keys():\n        if k in ignore:", "R12.3"),
    Variant("candidates-by-class-of-the-template-object", "FIRE", "core", "        type_matcher = _candidate_types(template)\n", "        type_matcher = template if isinstance(template, type) else type(template)\n", "R12.10"),
    Variant("candidates-wildcard-case-dropped", "FIRE", "core", "    if isinstance(template, Wildcard):  # what the wildcard stands for decides\n        if template.template is object:  # any piece of code: the expressions and the statements\n            return (ast.expr, ast.stmt)\n        return _candidate_types(template.template)\n", "", "R12.10"),
    Variant("candidates-first-alternative-only", "FIRE", "core", "        return tuple(_candidate_types(alternative) for alternative in template)\n", "        return _candidate_types(template[0])\n", "R12.10"),
    Variant("candidates-untyped-wildcard-every-node", "SILENT", "core", "            return (ast.expr, ast.stmt)\n", "            return ast.AST\n", "R12.10"),
    Variant("node-search-compares-string-prefix", "FIRE", "core", "    scope: ast.AST, node_template: Template, ignore: Collection[str] = SEARCH_IGNORE\n", "    scope: ast.AST, node_template: Template, ignore: Collection[str] = ()\n", "R12.11"),
    Variant("sequence-search-ignores-context", "FIRE", "core", "                    if m := match_template(node, template):", "                    if m := match_template(node, template, ignore=DEFAULT_IGNORE | {\"ctx\"}):", "R12.11"),
    Variant("sequence-search-passes-the-default-explicitly", "SILENT", "core", "                    if m := match_template(node, template):", "                    if m := match_template(node, template, ignore=DEFAULT_IGNORE):", "R12.11"),
    Variant("inner-match-longer-than-one-is-no-match", "FIRE", "core", "    if len(template_match) <= 1:\n        return namedtuple_type(template_match[0]) if template_match else ()\n", "    if len(template_match) <= 1:\n        return namedtuple_type(template_match[0]) if template_match else ()\n    if len(template_match) > 2:\n        return ()\n", "R12.12"),
    Variant("wildcard-binds-without-inner-match", "FIRE", "core", "        return namedtuple_type(template_match[0]) if template_match else ()\n", "        return namedtuple_type(node)\n", "R12.4"),
    Variant("inner-match-tested-by-emptiness-first", "SILENT", "core", "    if len(template_match) <= 1:\n        return namedtuple_type(template_match[0]) if template_match else ()\n", "    if not template_match:\n        return ()\n    if len(template_match) == 1:\n        return namedtuple_type(template_match[0])\n", "R12.12"),
    Variant("zero-or-one-needs-one", "FIRE", "core", "            node_counts[(i, node.template)] = (0, 1)\n", "            node_counts[(i, node.template)] = (1, 1)\n", "R12.1"),
    Variant("star-plus-regexes-swapped", "FIRE", "core",
            "        **{name[2:-3]: ZeroOrMany(object) for name in re.findall(r\"\\{\\{\\w+\\*\\}\\}\", source)},\n        **{name[2:-3]: OneOrMany(object) for name in re.findall(r\"\\{\\{\\w+\\+\\}\\}\", source)},",
            "        **{name[2:-3]: ZeroOrMany(object) for name in re.findall(r\"\\{\\{\\w+\\+\\}\\}\", source)},\n        **{name[2:-3]: OneOrMany(object) for name in re.findall(r\"\\{\\{\\w+\\*\\}\\}\", source)},", "R12.1"),
    Variant("length-filter-one-or-many-bounded", "FIRE", "core",
            "        if isinstance(n, OneOrMany):\n            max_nodes_length = float(\"inf\")\n\n    if not min_nodes_length",
            "        if isinstance(n, OneOrMany):\n            min_nodes_length -= 1\n            max_nodes_length = float(\"inf\")\n\n    if not min_nodes_length", "R12.1"),
    Variant("with-bodies-not-searched", "FIRE", "constants", "    ast.AsyncFor,\n    ast.With,\n    ast.AsyncWith,", "    ast.AsyncFor,\n    ast.AsyncWith,", "R12.2"),
    Variant("async-blocks-not-searched", "FIRE", "constants", "    ast.AsyncFor,\n    ast.With,\n    ast.AsyncWith,", "    ast.With,", "R12.2"),
    Variant("ignore-identifiers", "FIRE", "core",
            "DEFAULT_IGNORE = frozenset((\"lineno\", \"end_lineno\", \"col_offset\", \"end_col_offset\", \"kind\"))",
            "DEFAULT_IGNORE = frozenset((\"lineno\", \"end_lineno\", \"col_offset\", \"end_col_offset\", \"kind\", \"id\"))", "R12.3"),
    Variant("merge-without-consistency", "FIRE", "core",
            "    if not _all_fields_consistent(namedtuple_matches):\n        return ()\n\n    namedtuple_vars = {", "    namedtuple_vars = {", "R12.4"),
    Variant("failed-child-ignored", "FIRE", "core",
            "    for match in matches:\n        if not match:\n            return ()\n\n        if type(match) is not tuple:",
            "    for match in matches:\n        if not match:\n            continue\n\n        if type(match) is not tuple:", "R12.4"),
    Variant("ast-template-any-class", "FIRE", "core",
            "        if isinstance(node, type(template)):\n            return _match_template_vars(node, template, ignore=ignore)\n\n        return ()",
            "        if isinstance(node, ast.AST):\n            return _match_template_vars(node, template, ignore=ignore)\n\n        return ()", "R12.4"),
    Variant("consistency-allows-two", "FIRE", "core", "                if len(options) > 1:\n                    return False", "                if len(options) > 2:\n                    return False", "R12.4"),
    Variant("question-mark-widened-like-star", "FIRE", "core",
            "        if isinstance(node, ZeroOrMany):\n            node_counts[i, node.template] = (0, slack)", "        if isinstance(node, (ZeroOrOne, ZeroOrMany)):\n            node_counts[i, node.template] = (0, slack)", "R12.1"),
    Variant("blocks-read-lazily-after-rebinding", "FIRE", "core",
            "        for body in [getattr(node, \"body\", []), getattr(node, \"orelse\", [])]:\n            if not body:",
            "        for field in (\"body\", \"orelse\"):\n            body = getattr(node, field, [])\n            if not body:", "R12.2"),
    Variant("blocks-read-by-field-loop", "SILENT", "core",
            "        for body in [getattr(node, \"body\", []), getattr(node, \"orelse\", [])]:\n            if not body:",
            "        scope_node = node\n        for field in (\"body\", \"orelse\"):\n            body = getattr(scope_node, field, [])\n            if not body:"),
    Variant("ignore-as-constant-reordered", "SILENT", "core",
            "DEFAULT_IGNORE = frozenset((\"lineno\", \"end_lineno\", \"col_offset\", \"end_col_offset\", \"kind\"))",
            "DEFAULT_IGNORE = frozenset({\"kind\", \"end_col_offset\", \"col_offset\", \"end_lineno\", \"lineno\"})"),
    Variant("block-kinds-reordered", "SILENT", "constants", "    ast.AsyncFor,\n    ast.With,\n    ast.AsyncWith,", "    ast.AsyncWith,\n    ast.With,\n    ast.AsyncFor,"),
]

META = {
    "design_ref": "DESIGN.md section 3, C12",
    "technique": "table extraction and sibling cross-check (compiler / permutation generator / length filter) against the declarative quantifier reading; path-condition checks that the consistency test dominates every successful merge and that the expansion loop only returns tested results; provenance of the repetition counts of yielded expansions; class built by (aliased) visitors of the template compiler; sibling agreement between the field names the consistency test skips and the names the compiler reserves",
    "level_text": ("Decides on the current source that the three quantifier tables agree with ?=(0,1) *=(0,inf) "
                   "+=(1,inf), that sequence patterns are searched in all block kinds the property names, that only "
                   "non-semantic fields are ignored and all other template fields compared, and the combination rules of "
                   "the matcher (failed child, wildcard consistency, alternatives, type/AST/leaf dispatch). It does not "
                   "decide the backtracking search (slack and window arithmetic) - that remains with the 45 pinned examples."),
    "level_note": "Trusted: CPython ast, re._parser; the declarative table in sa/props/c12.py.",
}
