"""C13 Match objects and the re-like API are geometrically coherent (partial, DESIGN 3/C13)."""
from __future__ import annotations

import ast
from typing import Dict, List, Optional, Set, Tuple

from ..defuse import assignments, bindings, call_arg, names_in
from ..model import AnalysisError, Func, Program, norm, parent, short, walk_own, walk_body
from ..report import Result

BYTE, CHAR, LINENO, SPLITLINES, SPLITTABLE, TOKLINES, OTHER = "BYTE", "CHAR", "LINENO", "SPLITLINES", "SPLITTABLE", "TOKLINES", "OTHER"
BYTE_FIELDS = {"col_offset", "end_col_offset"}
LINE_FIELDS = {"lineno", "end_lineno"}
TOKENIZER_SEPARATORS = r"\r\n|\r|\n"


class Units:
    """Flow-insensitive dimension typing of one function."""

    def __init__(self, prog: Program, fn: Func, ret_units: Dict[Tuple[str, str], str]):
        self.prog, self.fn, self.ret_units = prog, fn, ret_units
        self.env: Dict[str, str] = {}
        for p in fn.all_params:   # parameters named like ast position fields carry their unit
            if p in BYTE_FIELDS:
                self.env[p] = BYTE
            elif p in LINE_FIELDS:
                self.env[p] = LINENO
        for _ in range(4):
            changed = False
            for name, defs in bindings(fn).items():
                cur = self.env.get(name)
                new = cur
                for stmt, value in defs:
                    t = None
                    if value is not None:
                        t = self.unit(value)
                    elif isinstance(stmt, (ast.For, ast.AsyncFor)):
                        t = self.loop_unit(stmt, name)
                    if t and t != OTHER:
                        new = t if new is None or new == t else ("MIXED" if {new, t} == {BYTE, CHAR} else new)
                if new != cur and new is not None:
                    self.env[name] = new
                    changed = True
            # tables filled by append of running CHAR totals while iterating splitlines
            for n in walk_own(fn.node):
                if isinstance(n, ast.Call) and isinstance(n.func, ast.Attribute) and n.func.attr == "append" and isinstance(n.func.value, ast.Name) and n.args:
                    loop = parent(n)
                    while loop is not None and not isinstance(loop, ast.For):
                        loop = parent(loop)
                    if loop is not None:
                        it = self.unit(loop.iter)
                        if it in (SPLITLINES, TOKLINES):
                            tgt = n.func.value.id
                            want = SPLITTABLE if it == SPLITLINES else "TOKTABLE"
                            if self.env.get(tgt) != want:
                                self.env[tgt] = want
                                changed = True
            if not changed:
                break

    def loop_unit(self, loop, name):
        return None

    def is_match(self, name: str) -> bool:
        """Is the local bound (only) to core.Match objects: the constructor, or what the search functions hand out."""
        defs = bindings(self.fn).get(name, [])
        if not defs:
            a = [x for x in self.fn.node.args.args + self.fn.node.args.kwonlyargs if x.arg == name]
            return bool(a and a[0].annotation is not None and norm(a[0].annotation).split("|")[0].strip().endswith("Match"))
        for stmt, value in defs:
            v = value
            if v is None and isinstance(stmt, (ast.For, ast.AsyncFor)) and isinstance(stmt.target, ast.Name):
                v = stmt.iter
            if not isinstance(v, ast.Call):
                return False
            d = norm(v.func)
            if d.split(".")[-1] == "Match" or d.split(".")[-1] in ("finditer", "search", "match", "fullmatch"):
                r = self.prog.resolve_call(v.func, self.fn.mod, self.fn)
                if d.split(".")[-1] == "Match" or (r and r[0] == "fn" and r[1].mod.name == "pattern_matching"):
                    continue
            return False
        return True

    def unit(self, e: ast.AST) -> str:
        if isinstance(e, ast.Name):
            return self.env.get(e.id, OTHER)
        if isinstance(e, ast.Attribute):
            if e.attr in ("lineno", "col_offset") and isinstance(e.value, ast.Name) and self.is_match(e.value.id):
                # core.Match.lineno / .col_offset are derived from the CHARACTER span: the line the span starts on (decorators
                # included) and the number of characters in front of it
                return CHAR if e.attr == "col_offset" else "SPANLINE"
            if e.attr in BYTE_FIELDS:
                return BYTE
            if e.attr in LINE_FIELDS:
                return LINENO
            return OTHER
        if isinstance(e, ast.Call):
            d = self.prog.dotted(e.func) or ""
            if d == "getattr" and len(e.args) >= 2 and isinstance(e.args[1], ast.Constant):
                if e.args[1].value in BYTE_FIELDS:
                    return BYTE
                if e.args[1].value in LINE_FIELDS:
                    return LINENO
            if d == "len" and e.args:
                if _is_byte_to_char_conversion(e):
                    return CHAR
                return CHAR if not isinstance(e.args[0], (ast.List, ast.Tuple, ast.Dict, ast.Set)) else OTHER
            if isinstance(e.func, ast.Attribute) and e.func.attr == "splitlines":
                return SPLITLINES
            if isinstance(e.func, ast.Attribute) and e.func.attr == "readlines" and "StringIO" in norm(e.func.value):
                return "NLLINES"      # io.StringIO(text).readlines(): lines end at \n only (no newline translation for an initial value)
            if isinstance(e.func, ast.Attribute) and e.func.attr == "split" and len(e.args) == 1 and isinstance(e.args[0], ast.Constant) and e.args[0].value == "\n":
                return "NLLINES"
            if d in ("re.findall", "re.split") and e.args and isinstance(e.args[0], ast.Constant) and isinstance(e.args[0].value, str) \
                    and "\\n" in e.args[0].value and not any(x in e.args[0].value for x in ("\\f", "\\v", "\\x0c", "\\x0b", "\\u2028", "\\x85")):
                return TOKLINES
            if d in ("tuple", "list") and e.args:
                u = self.unit(e.args[0])
                return u if u in (SPLITLINES, SPLITTABLE, TOKLINES, "TOKTABLE", "NLLINES") else OTHER
            if d in ("min", "max") and e.args:
                us = {self.unit(a) for a in e.args}
                for u in (BYTE, CHAR, LINENO):
                    if u in us:
                        return u
            if isinstance(e.func, ast.Attribute) and e.func.attr in ("start", "end") and not e.args:
                return CHAR
            r = self.prog.resolve_call(e.func, self.fn.mod, self.fn)
            if r and r[0] == "fn" and r[1].key in self.ret_units:
                return self.ret_units[r[1].key]
            return OTHER
        if isinstance(e, ast.BinOp) and isinstance(e.op, (ast.Add, ast.Sub)):
            l, r = self.unit(e.left), self.unit(e.right)
            for u in (BYTE, CHAR, LINENO):
                if u in (l, r) and {l, r} <= {u, OTHER}:
                    return u
            if {l, r} == {BYTE, CHAR}:
                return "MIXED"
            return OTHER
        if isinstance(e, ast.Subscript):
            base = self.unit(e.value)
            if base in (SPLITTABLE, "TOKTABLE") and not isinstance(e.slice, ast.Slice):
                return CHAR
            if base in (SPLITLINES, TOKLINES) and isinstance(e.slice, ast.Slice):
                return base
            return OTHER
        if isinstance(e, ast.IfExp):
            a, b = self.unit(e.body), self.unit(e.orelse)
            return a if a == b else OTHER
        if isinstance(e, (ast.ListComp, ast.GeneratorExp)) and len(e.generators) == 1 and not e.generators[0].ifs:
            it = self.unit(e.generators[0].iter)
            g = e.generators[0]
            if it in (SPLITLINES, TOKLINES) and isinstance(g.target, ast.Name) and g.target.id in names_in(e.elt):
                return it    # one element per line, in order
        return OTHER


def _index_bases(u, fn: Func, e: ast.AST, depth: int = 0) -> set:
    """What e counts from, relative to ast line numbers (which count from 1): {1} for a line number as it is, {0} for a line
    number minus one, {k} for other constant shifts; several values when the bindings of a name differ; empty when e is not
    derived from line numbers by constant shifts.  `x -= 1` / `x += 1` steps are movements between lines and do not change
    what the variable counts from."""
    if depth > 5:
        return set()
    if isinstance(e, ast.Attribute):
        return {1} if e.attr in LINE_FIELDS else set()
    if isinstance(e, ast.BinOp) and isinstance(e.op, (ast.Add, ast.Sub)) and isinstance(e.right, ast.Constant) and isinstance(e.right.value, int):
        k = e.right.value if isinstance(e.op, ast.Add) else -e.right.value
        return {b + k for b in _index_bases(u, fn, e.left, depth + 1)}
    if isinstance(e, ast.Call):
        d = u.prog.dotted(e.func) or ""
        if d in ("min", "max") and e.args:
            out = set()
            for a in e.args:
                if isinstance(a, (ast.GeneratorExp, ast.ListComp)):
                    out |= _index_bases(u, fn, a.elt, depth + 1)
                elif isinstance(a, ast.Name) and len(e.args) == 1:
                    vals = [v for _s, v in bindings(fn).get(a.id, []) if v is not None]
                    for v in vals:
                        if isinstance(v, (ast.ListComp, ast.GeneratorExp, ast.SetComp)):
                            out |= _index_bases(u, fn, v.elt, depth + 1)
                else:
                    out |= _index_bases(u, fn, a, depth + 1)
            return out
        return set()
    if isinstance(e, ast.Name):
        if e.id in fn.all_params:
            return {1} if e.id in LINE_FIELDS else set()
        out = set()
        for s_, v in bindings(fn).get(e.id, []):
            if v is not None and not isinstance(s_, ast.AugAssign):
                out |= _index_bases(u, fn, v, depth + 1)
        return out
    return set()


def _is_byte_to_char_conversion(e: ast.Call) -> bool:
    """len(<x>.encode(..)[:B].decode(..)) - the recognised converter from a UTF-8 byte column to a character count."""
    a = e.args[0]
    if isinstance(a, ast.Call) and isinstance(a.func, ast.Attribute) and a.func.attr == "decode":
        inner = a.func.value
        if isinstance(inner, ast.Subscript) and isinstance(inner.slice, ast.Slice):
            src = inner.value
            if isinstance(src, ast.Call) and isinstance(src.func, ast.Attribute) and src.func.attr == "encode":
                return True
            if isinstance(src, ast.Name):
                return True
    return False


LATER_RULES = ' Later rules: R13.4 also demands root= to be the parse of the whole source; (R13.5) line lists are indexed by line number minus one or under a sufficient bound; (R13.6) text[pos - 1] needs pos > 0. (R13.10) Match.lineno / Match.col_offset are span coordinates (characters; the line of the first decorator): never compared with raw ast lineno / col_offset of a statement that can be decorated, or with byte columns (R13.1).'


def check(prog: Program, tier: str) -> Result:
    res = Result(
        "C13",
        explanation=(
            "(R13.1) unit discipline: ast column offsets are UTF-8 BYTE offsets, while line-start tables, len(str), "
            "re.Match.start()/end() and Range fields are CHARACTER offsets. A dimension typing of every function reports "
            "additions, subtractions, comparisons and slicing that mix the two units unless the byte value went through "
            "the recognised converter len(line.encode()[:col].decode()) (or the line is known to be ASCII). "
            "`' ' * col_offset` (indent width) is not a position use. (R13.2) line notion: ast line numbers follow the "
            "tokenizer (\\n, \\r\\n, \\r) while str.splitlines also splits at \\f \\v \\x1c-\\x1e \\x85 \\u2028 \\u2029; a "
            "list or table derived from splitlines must not be indexed by a value derived from an ast lineno. (R13.3) API "
            "derivations: findall is the projection of finditer to Match.string, search is its first element, the CLI "
            "prints attributes of the same Match objects, Match.string is the source slice of its span. (R13.4) match / fullmatch scan ALL "
            "candidates (they arrive in tree-walk order): the only early exit is the return of an anchored candidate. Not decided: the "
            "decorator / whitespace adjustments of get_charnos and the span logic of match/fullmatch."),
        rule_text="instances = arithmetic / comparison / indexing expressions over position values, indexing of line lists, API wrapper derivations; non-trivial = expressions involving a byte column or an ast line number",
    )
    res.explanation += LATER_RULES
    res.trusted_base = ["CPython ast", "dimension typing rules in sa/props/c13.py (which expressions are byte columns, character offsets, splitlines lists)"]
    res.assumptions = ["ast.col_offset / end_col_offset count UTF-8 bytes; ast.lineno counts tokenizer lines (language reference)"]
    # return units of repository functions (one round is enough for the helpers involved)
    ret_units: Dict[Tuple[str, str], str] = {}
    for _ in range(3):
        for fn in prog.funcs.values():
            u = Units(prog, fn, ret_units)
            rets = [n for n in walk_own(fn.node) if isinstance(n, ast.Return) and n.value is not None]
            us = {u.unit(r.value) for r in rets}
            if len(us) == 1 and next(iter(us)) in (CHAR, BYTE, SPLITLINES, SPLITTABLE, TOKLINES, "TOKTABLE", "NLLINES"):
                ret_units[fn.key] = next(iter(us))
    n_expr = 0
    for fn in prog.funcs.values():
        u = Units(prog, fn, ret_units)
        for n in walk_own(fn.node):
            # ---------------- R13.1
            if isinstance(n, ast.BinOp) and isinstance(n.op, (ast.Add, ast.Sub)):
                l, r = u.unit(n.left), u.unit(n.right)
                if BYTE in (l, r) or CHAR in (l, r):
                    n_expr += 1
                if {l, r} == {BYTE, CHAR}:
                    if _ascii_guard(fn, n):
                        res.ok("R13.1", fn.loc(n), fn.fq, short(n, 90), "byte column used as character count under a test that the line is ASCII")
                    else:
                        res.bad("R13.1", fn.loc(n), fn.fq, short(n, 90),
                                "a UTF-8 byte column (ast col_offset) is added to / subtracted from a character offset: every non-ASCII character "
                                "before the node on its line shifts the computed position")
                elif BYTE in (l, r) or CHAR in (l, r):
                    res.ok("R13.1", fn.loc(n), fn.fq, short(n, 90), f"units agree ({l}, {r})", trivial=(BYTE not in (l, r)))
            if isinstance(n, ast.Compare):
                parts = [n.left] + list(n.comparators)
                units = [_tuple_units(u, p) for p in parts]
                for a, b in zip(units, units[1:]):
                    for x, y in zip(a, b):
                        if {x, y} == {BYTE, CHAR}:
                            res.bad("R13.1", fn.loc(n), fn.fq, short(n, 90), "a byte column is compared with a character offset")
                            break
                # ---------------- R13.10 the line a match starts on vs the lineno of a node
                for (a, pa_), (b, pb_) in zip(zip(units, parts), list(zip(units, parts))[1:]):
                    ea = pa_.elts if isinstance(pa_, ast.Tuple) else [pa_]
                    eb = pb_.elts if isinstance(pb_, ast.Tuple) else [pb_]
                    for x, y, ex, ey in zip(a, b, ea, eb):
                        if {x, y} == {"SPANLINE", LINENO}:
                            raw = ex if x == LINENO else ey
                            kinds = None
                            if isinstance(raw, ast.Attribute) and isinstance(raw.value, ast.Name):
                                from .c03 import _stmt_kinds_of, _DECORATABLE
                                kinds = _stmt_kinds_of(prog, fn, raw.value.id)
                            if kinds is None:
                                res.undecided("R13.10", fn.loc(n), fn.fq, short(n, 90), "the line a match starts on is compared with the lineno of a node of unknown kind")
                            else:
                                ok = "*" not in kinds and not (kinds & _DECORATABLE)
                                res.decide(ok, "R13.10", fn.loc(n), fn.fq, short(n, 90), "the node cannot carry decorators" if ok else
                                           "the line a match starts on (its span begins at the first decorator) is compared with the raw lineno of a statement that can be a "
                                           "decorated def / class (lineno is the line of `def`): a match at that statement is not recognised as starting there")
            if isinstance(n, ast.Subscript) and isinstance(n.slice, ast.Slice):
                for b in (n.slice.lower, n.slice.upper):
                    if b is not None and u.unit(b) == BYTE:
                        base = norm(n.value)
                        is_bytes = isinstance(n.value, ast.Call) and isinstance(n.value.func, ast.Attribute) and n.value.func.attr == "encode"
                        if not is_bytes and ("source" in base or "line" in base or "code" in base):
                            res.bad("R13.1", fn.loc(n), fn.fq, short(n, 90), "a byte column is used as a slice bound of a str")
            # ---------------- R13.2
            if isinstance(n, ast.Subscript):
                base = u.unit(n.value)
                if base in (SPLITLINES, SPLITTABLE):
                    idx_parts = [n.slice.lower, n.slice.upper] if isinstance(n.slice, ast.Slice) else [n.slice]
                    if any(p is not None and _mentions_lineno(u, p) for p in idx_parts):
                        n_expr += 1
                        res.bad("R13.2", fn.loc(n), fn.fq, short(n, 90),
                                "a list/table produced by str.splitlines is indexed by an ast line number: splitlines also splits at form feed, vertical tab, "
                                "\\x1c-\\x1e, \\x85, \\u2028, \\u2029, which do not end a line for the tokenizer, so every line after such a character is off by one")
                elif base == "NLLINES":
                    idx_parts = [n.slice.lower, n.slice.upper] if isinstance(n.slice, ast.Slice) else [n.slice]
                    if any(p is not None and _mentions_lineno(u, p) for p in idx_parts):
                        n_expr += 1
                        res.bad("R13.2", fn.loc(n), fn.fq, short(n, 90),
                                "a list of lines split at \\n only (StringIO.readlines / split('\\n')) is indexed by an ast line number: the tokenizer also ends a line at a lone "
                                "\\r (classic Mac line ends, a stray \\r inside a triple-quoted literal), so every line after one is off by one")
                elif base in (TOKLINES, "TOKTABLE"):
                    idx_parts = [n.slice.lower, n.slice.upper] if isinstance(n.slice, ast.Slice) else [n.slice]
                    if any(p is not None and _mentions_lineno(u, p) for p in idx_parts):
                        n_expr += 1
                        res.ok("R13.2", fn.loc(n), fn.fq, short(n, 90), "line table built with the tokenizer's line separators, indexed by an ast line number")
                # ---------------- R13.5 ast line numbers count from 1, lists from 0
                if base in (SPLITLINES, SPLITTABLE, TOKLINES, "TOKTABLE") and not isinstance(n.slice, ast.Slice) and isinstance(n.ctx, ast.Load):
                    bs = _index_bases(u, fn, n.slice)
                    if bs:
                        n_expr += 1
                        worst = max(bs)
                        guarded = False
                        if worst >= 1:
                            # an explicit bound test of the index against the length of the table on the path
                            from ..pathcond import PathAnalysis, entails
                            pa13 = PathAnalysis(prog, fn)
                            worlds = pa13.worlds_at(n)
                            ivars = {v.id for v in ast.walk(n.slice) if isinstance(v, ast.Name)}
                            pairs = []
                            for t0 in ast.walk(fn.node):
                                if isinstance(t0, ast.Compare):
                                    operands = [t0.left] + list(t0.comparators)
                                    for i_, op_ in enumerate(t0.ops):     # a < b < c  =  a < b and b < c
                                        pairs.append(ast.copy_location(ast.Compare(left=operands[i_], ops=[op_], comparators=[operands[i_ + 1]]), t0))
                            for t in pairs:
                                if isinstance(t, ast.Compare) and len(t.ops) == 1 and isinstance(t.ops[0], (ast.Lt, ast.LtE, ast.Gt, ast.GtE)) \
                                        and any(isinstance(c, ast.Call) and isinstance(c.func, ast.Name) and c.func.id == "len" and c.args and norm(c.args[0]) == norm(n.value)
                                                for c in [t.left] + t.comparators) and ({v.id for v in ast.walk(t) if isinstance(v, ast.Name)} & ivars):
                                    # index = var + k; the test bounds var by len(T) + c; needed: index <= len(T) - 1
                                    idx = n.slice
                                    k = 0
                                    if isinstance(idx, ast.BinOp) and isinstance(idx.op, (ast.Add, ast.Sub)) and isinstance(idx.right, ast.Constant) and isinstance(idx.right.value, int):
                                        k = idx.right.value if isinstance(idx.op, ast.Add) else -idx.right.value
                                        idx = idx.left
                                    if not isinstance(idx, ast.Name):
                                        continue
                                    var_left = isinstance(t.left, ast.Name) and t.left.id == idx.id
                                    var_right = isinstance(t.comparators[0], ast.Name) and t.comparators[0].id == idx.id
                                    if not (var_left or var_right):
                                        continue
                                    op = type(t.ops[0])
                                    if var_right:      # len(T) OP var  ==  var MIRROR(OP) len(T)
                                        op = {ast.Lt: ast.Gt, ast.Gt: ast.Lt, ast.LtE: ast.GtE, ast.GtE: ast.LtE}[op]
                                    for pol in (True, False):
                                        if worlds and all(entails(w.facts, pa13.formula(t, w, pol)) for w in worlds):
                                            c = {(ast.Lt, True): -1, (ast.LtE, True): 0, (ast.Gt, False): 0, (ast.GtE, False): -1}.get((op, pol))
                                            if c is not None and c + k <= -1:
                                                guarded = True
                        res.decide(worst <= 0 or guarded, "R13.5", fn.loc(n), fn.fq, short(n, 90),
                                   "the index is a line number minus one" if worst <= 0 else "a later line is read under an explicit test against the number of lines" if guarded else
                                   f"a list of lines (indexes 0..n-1) is indexed by an expression that can be an ast line number as it is (1..n; bindings count from {sorted(bs)}): "
                                   "it reads the line AFTER the one the number names, and past the end when that is the last line (IndexError)")
    _r13_6(prog, res, ret_units)
    _r13_7(prog, res)
    _r13_8(prog, res)
    _r13_9(prog, res)
    _r13_3(prog, res)
    _r13_4(prog, res)
    res.floors.update({"R13.1": 3, "R13.2": 1, "R13.3": 4, "R13.4": 3, "R13.5": 2, "R13.7": 2, "R13.8": 1, "R13.9": 1})
    res.analysed.update({"position_expressions": n_expr, "functions_returning_positions": {f"{k[0]}.{k[1]}": v for k, v in sorted(ret_units.items())}})
    return res


def _tuple_units(u: Units, e: ast.AST) -> List[str]:
    if isinstance(e, ast.Tuple):
        return [u.unit(x) for x in e.elts]
    if isinstance(e, ast.Name):
        defs = [v for _, v in assignments(u.fn, e.id) if v is not None]
        if defs and all(isinstance(v, ast.Tuple) for v in defs) and len({len(v.elts) for v in defs}) == 1:
            cols = []
            for i in range(len(defs[0].elts)):
                us = {u.unit(v.elts[i]) for v in defs}
                cols.append(next(iter(us)) if len(us) == 1 else ("MIXED" if {BYTE, CHAR} <= us else OTHER))
            return cols
    return [u.unit(e)]


def _mentions_lineno(u: Units, e: ast.AST) -> bool:
    if u.unit(e) == LINENO:
        return True
    for n in ast.walk(e):
        if isinstance(n, ast.Attribute) and n.attr in LINE_FIELDS:
            return True
        if isinstance(n, ast.Name) and u.env.get(n.id) == LINENO:
            return True
    return False


def _ascii_guard(fn: Func, n: ast.AST) -> bool:
    a = parent(n)
    while a is not None and a is not fn.node:
        if isinstance(a, ast.If) and "isascii()" in norm(a.test):
            return True
        a = parent(a)
    return False


def _r13_3(prog: Program, res: Result) -> None:
    fa = prog.func("pattern_matching", "findall")
    rets = [r for r in walk_own(fa.node) if isinstance(r, ast.Return)]
    ok = False
    if len(rets) == 1 and isinstance(rets[0].value, (ast.ListComp,)):
        c = rets[0].value
        g = c.generators[0]
        ok = isinstance(c.elt, ast.Attribute) and c.elt.attr == "string" and isinstance(g.iter, ast.Call) and norm(g.iter.func) == "finditer" \
            and [norm(a) for a in g.iter.args] == fa.posparams[:2] and not g.ifs
    res.decide(ok, "R13.3", fa.loc(), fa.fq, "findall", "texts of finditer(pattern, source) in order, unfiltered" if ok else "findall is no longer the projection of finditer to Match.string")
    se = prog.func("pattern_matching", "search")
    rets = [r for r in walk_own(se.node) if isinstance(r, ast.Return)]
    ok = len(rets) == 1 and norm(rets[0].value) == f"next(finditer({se.posparams[0]}, {se.posparams[1]}), None)"
    res.decide(ok, "R13.3", se.loc(), se.fq, "search", "first finditer result or None" if ok else "search is no longer the first finditer result")
    ci = prog.classes.get(("core", "Match"))
    st = prog.funcs.get(("core", "Match.string"))
    ok = False
    if st is not None:
        rets = [r for r in walk_own(st.node) if isinstance(r, ast.Return)]
        ok = len(rets) == 1 and norm(rets[0].value).replace(" ", "") in ("self.source[self.start:self.end]", "self.source[self.span.start:self.span.end]")
    res.decide(ok, "R13.3", st.loc() if st else "pyrefact/core.py:0", "core.Match.string", "Match.string", "exactly the source slice of the span" if ok else "Match.string is not source[start:end]")
    for prop, field in (("start", "start"), ("end", "end")):
        f = prog.funcs.get(("core", f"Match.{prop}"))
        if f is not None:
            rets = [r for r in walk_own(f.node) if isinstance(r, ast.Return)]
            ok = len(rets) == 1 and norm(rets[0].value) == f"self.span.{field}"
            res.decide(ok, "R13.3", f.loc(), f.fq, f"Match.{prop}", "span component" if ok else f"Match.{prop} is not span.{field}")
    fi = prog.func("pattern_matching", "finditer")
    ys = [y for y in walk_own(fi.node) if isinstance(y, ast.Yield)]
    ok = False
    if len(ys) == 1 and isinstance(ys[0].value, ast.Call) and norm(ys[0].value.func) == "core.Match":
        args = [norm(a) for a in ys[0].value.args]
        loop = parent(ys[0])
        while loop is not None and not isinstance(loop, ast.For):
            loop = parent(loop)
        if loop is not None and isinstance(loop.target, ast.Tuple):
            first = norm(loop.target.elts[0])
            last = norm(loop.target.elts[-1])
            ok = args[:2] == [first, fi.posparams[1]] and args[2] == last and "yield_match=True" in norm(loop.iter) and fi.posparams[1] in [norm(a) for a in loop.iter.args[:1]]
    res.decide(ok, "R13.3", fi.loc(), fi.fq, "finditer", "Match(range, source, groups) for every find_replace item over the same source" if ok else "finditer no longer builds Match(range, source, groups) from the ranges of find_replace over the same source")
    # the line/column of a match use the same line table as the spans
    lc = prog.funcs.get(("core", "Match._lineno_col_offset"))
    gc = prog.func("core", "get_charnos")
    if lc is not None:
        t1 = {norm(c.func) for c in prog.calls_in(lc) if "line" in norm(c.func)}
        t2 = {norm(c.func) for c in prog.calls_in(gc) if "line" in norm(c.func) or "charno" in norm(c.func)}
        t2 |= {norm(c.func) for f2 in prog.funcs.values() if f2.key in {("core", "_get_charno")} for c in prog.calls_in(f2)}
        ok = bool(t1) and bool(t1 & t2)
        res.decide(ok, "R13.3", lc.loc(), lc.fq, "line/column of a match", f"computed from the same line table as the spans ({sorted(t1 & t2)})" if ok else f"line/column use {sorted(t1)}, spans use {sorted(t2)}")


def _r13_6(prog: Program, res: Result, ret_units) -> None:
    """Looking at the character IN FRONT of a position: `text[pos - 1]`.  At position 0 there is none - and Python does not
    raise, index -1 is the LAST character of the text.  `get_charnos` peeked for the `@` of a decorator this way: for a
    def at offset 0 of a source that ends in `@` (a trailing comment `# someone@`, no final line break) the span became
    (-1, end).  Instance: every subscript of a text with a character offset minus one; obligation: `pos > 0` (or
    `pos >= 1`, or the truth of pos) on the path."""
    from ..pathcond import PathAnalysis, entails
    n = 0
    for fn in prog.funcs.values():
        u = None
        for x in walk_own(fn.node):
            if not (isinstance(x, ast.Subscript) and isinstance(x.ctx, ast.Load) and isinstance(x.value, ast.Name) and isinstance(x.slice, ast.BinOp)
                    and isinstance(x.slice.op, ast.Sub) and isinstance(x.slice.right, ast.Constant) and x.slice.right.value == 1 and isinstance(x.slice.left, ast.Name)):
                continue
            ann = {a.arg: norm(a.annotation) for a in fn.node.args.posonlyargs + fn.node.args.args + fn.node.args.kwonlyargs if a.annotation is not None}
            if ann.get(x.value.id) != "str":
                continue
            u = u or Units(prog, fn, ret_units)
            if u.unit(x.slice.left) != CHAR:
                continue
            n += 1
            pos = x.slice.left.id
            pa = PathAnalysis(prog, fn)
            worlds = pa.worlds_at(x)
            tests = [ast.parse(t, mode="eval").body for t in (f"{pos} > 0", f"{pos} >= 1", f"{pos}", f"{pos} != 0")]
            ok = bool(worlds) and any(all(entails(w.facts, pa.formula(t, w)) for w in worlds) for t in tests)
            res.decide(ok, "R13.6", fn.loc(x), fn.fq, short(x, 60),
                       f"read only when {pos} > 0" if ok else
                       f"at {pos} == 0 this reads index -1, the LAST character of the text: the span of a definition at offset 0 can start at -1")
    if n == 0:
        # the only peek of the tree was replaced by a search (fix of R13.8); the rule stays armed, its positive example is the
        # self-test variant `peek-in-front-of-offset-zero`, which puts an unguarded peek back and must be reported
        res.ok("R13.6", "pyrefact/core.py:0", "core", "text[offset - 1] # peeks at the character in front of an offset", "none in the tree", trivial=True)


# ------------------------------------------------------------------------------------------------ R13.7 / R13.8
def _r13_7(prog: Program, res: Result) -> None:
    """The span of a node is what its positions say.  get_charnos also TRIMS it by what the text looks like (a blank at either end
    of the slice is cut off).  For a string constant the blanks at the ends are part of the node: the literal pieces of an
    f-string (`f"Saved to {path}"`, python 3.12 gives them exact positions) lost them, a piece of blanks only got an inverted
    span.  Every adjustment of the span that is conditioned on a CHARACTER of the slice is reached only when the node was
    tested not to be an ast.Constant."""
    from ..pathcond import PathAnalysis, plain
    fn = prog.funcs.get(("core", "get_charnos"))
    if fn is None:
        raise AnalysisError("anchor core.get_charnos not found")
    node_p = fn.posparams[0]
    pa = PathAnalysis(prog, fn)
    n = 0
    for a in walk_own(fn.node):
        if not (isinstance(a, ast.AugAssign) and isinstance(a.target, ast.Name)):
            continue
        worlds = pa.worlds_at(a)
        if not worlds:
            continue
        # conditioned on a character of the slice: a fact `eq(' ', X[0])` / `eq(' ', X[-1])` where X is a slice of the text
        def char_test(f) -> bool:
            t = plain(f[1]).replace('"', "'") if f[0] == "lit" else ""
            return f[0] == "lit" and f[2] and t.startswith("eq(' ',") and (t.endswith("[0])") or t.endswith("[-1])"))
        if not all(any(char_test(f) for f in w.facts) for w in worlds):
            continue
        n += 1
        ok = all(any(f[0] == "lit" and not f[2] and plain(f[1]).startswith(f"isinstance({node_p},") and "ast.Constant" in plain(f[1]) for f in w.facts) for w in worlds)
        res.decide(ok, "R13.7", fn.loc(a), fn.fq, f"{norm(a)} # the span is trimmed by a blank at its end",
                   "never for a constant: the blanks at the ends of a string are part of it" if ok else
                   "the span is cut at a blank at its end whatever the node is: the literal pieces of an f-string (`f'Saved to {p}'`) lose their blanks, a piece of "
                   "blanks only gets start > end")
    if n == 0:
        res.ok("R13.7", fn.loc(), fn.fq, "span adjustments conditioned on a character of the slice", "none", trivial=True)


def _r13_8(prog: Program, res: Result) -> None:
    """A decorated definition starts at the `@` of its first decorator.  The tree only knows where the decorator EXPRESSION
    starts; between the `@` and it there may be blanks, an opening bracket, a line continuation (`@ foo`, `@(foo)`).  Where
    get_charnos moves the start in front of the first decorator, the new start comes from a search, anchored at the old
    start, of a pattern that accepts all of these and needs the `@` (decided by running the constant pattern on the cases)."""
    import re as _re
    fn = prog.funcs.get(("core", "get_charnos"))
    if fn is None:
        raise AnalysisError("anchor core.get_charnos not found")
    searches = [c for c in prog.calls_in(fn) if norm(c.func) in ("re.search", "re.match", "re.fullmatch") and len(c.args) >= 2
                and isinstance(c.args[0], ast.Constant) and isinstance(c.args[0].value, str) and "@" in c.args[0].value]
    peeks = [x for x in walk_own(fn.node) if isinstance(x, ast.Compare) and any(isinstance(k, ast.Constant) and k.value == "@" for k in ast.walk(x))]
    if not searches and not peeks:
        res.bad("R13.8", fn.loc(), fn.fq, "the `@` of the first decorator", "the start of a decorated definition is never moved to the `@`: the span starts at the decorator expression")
        return
    for x in peeks:
        res.bad("R13.8", fn.loc(x), fn.fq, f"{short(x, 60)} # looks for the @ in one place",
                "the `@` is looked for in exactly one position in front of the decorator expression: `@ foo`, `@(foo)` and `@\\\\<newline>foo` start at `foo`")
    for c in searches:
        pat = c.args[0].value
        cases = {"@": 0, "@ ": 0, "@(": 0, "@ (": 0, "@\\\n": 0, "x = 1\n@  ": 6, "@(  # cached\n    ": 0, "# see @thing\n@(": 13}
        problems = []
        try:
            rx = _re.compile(pat)
            for text, want in cases.items():
                m = rx.search(text)
                if m is None or m.start() != want or m.end() != len(text):
                    problems.append(repr(text))
            for text in ("foo ", "(", "@ foo "):
                if rx.search(text) is not None:
                    problems.append(f"matches {text!r}")
        except _re.error as error:
            problems.append(str(error))
        anchored = norm(c.args[1]).replace(" ", "").endswith("[:start_charno]") or "[:" in norm(c.args[1])
        ok = not problems and anchored
        res.decide(ok, "R13.8", fn.loc(c), fn.fq, f"{short(c, 60)} # search for the @ of the first decorator",
                   "accepts blanks, brackets and line continuations between the `@` and the decorator, ends at the decorator" if ok else
                   f"the pattern {pat!r} does not find the `@` in all the ways it can be written: {problems[:4]}")



# ------------------------------------------------------------------------------------------------ R13.9
def _r13_9(prog: Program, res: Result) -> None:
    """Line and column of a match are positions in the text PYTHON sees: a module is decoded by its byte order mark and coding
    cookie (PEP 263), utf-8 otherwise.  The command line finder has to read files the same way - `tokenize.open` (or
    `tokenize.detect_encoding` + decode); `Path.read_text()` / `open(..)` decode by locale or a fixed codec: a file with a
    BOM reaches the parser with U+FEFF in front (SyntaxError), a latin-1 file raises UnicodeDecodeError, and the finder
    aborts without a location for this and all following files.  Every text that main() hands to finditer / sub flows
    from tokenize.open, and the read sits in a handler for decoding errors."""
    fn = prog.funcs.get(("pattern_matching", "main"))
    if fn is None:
        raise AnalysisError("anchor pattern_matching.main not found")
    consumers = [c for c in prog.calls_in(fn) if norm(c.func) in ("finditer", "sub", "subn", "findall", "search", "match", "fullmatch") and len(c.args) >= 2]
    if not consumers:
        res.undecided("R13.9", fn.loc(), fn.fq, "text handed to the matcher", "no call of finditer / sub found in main()")
        return
    seen = set()
    for c in consumers:
        text = c.args[-1]
        if not isinstance(text, ast.Name) or text.id in seen:
            continue
        seen.add(text.id)
        defs = [(st, v) for st, v in bindings(fn).get(text.id, []) if v is not None]
        ok, why = bool(defs), "the text has no visible source"
        for st, v in defs:
            t = norm(v)
            reads = ".read()" in t or ".read_text(" in t or "open(" in t
            if not reads:
                continue
            # `X.read()` where X is bound by `with tokenize.open(..) as X`
            src_ok = False
            if isinstance(v, ast.Call) and isinstance(v.func, ast.Attribute) and v.func.attr == "read" and isinstance(v.func.value, ast.Name):
                stream = v.func.value.id
                for w in walk_own(fn.node):
                    if isinstance(w, ast.With):
                        for item in w.items:
                            if isinstance(item.optional_vars, ast.Name) and item.optional_vars.id == stream and norm(item.context_expr.func if isinstance(item.context_expr, ast.Call) else item.context_expr) == "tokenize.open":
                                src_ok = True
            handled = False
            a = parent(st)
            while a is not None and a is not fn.node:
                if isinstance(a, ast.Try) and any(h.type is None or any(k in norm(h.type) for k in ("UnicodeDecodeError", "UnicodeError", "ValueError", "Exception")) for h in a.handlers):
                    handled = True
                a = parent(a)
            ok = src_ok and handled
            why = ("read with tokenize.open inside a handler for decoding errors" if ok else
                   (f"`{short(v, 50)}` does not decode the file the way python does (byte order mark, coding cookie)" if not src_ok else
                    "the read is not in a handler for UnicodeDecodeError: one undecodable file ends the search without a location for the others"))
        res.decide(ok, "R13.9", fn.loc(c), fn.fq, f"{short(c, 50)} # the text of a file handed to the matcher", why)



def _r13_4(prog: Program, res: Result) -> None:
    """match / fullmatch succeed exactly when SOME candidate is anchored: the candidates of find_replace come in
    tree-walk order, not in position order, so the scan must look at every candidate - the only early exit from the
    loop is the return of an anchored candidate."""
    for name, anchored in (("match", "start"), ("fullmatch", "span")):
        fn = prog.funcs.get(("pattern_matching", name))
        if fn is None:
            raise AnalysisError(f"anchor pattern_matching.{name} not found")
        loops = []
        for n in walk_own(fn.node):
            if isinstance(n, ast.For):
                it = n.iter
                if isinstance(it, ast.Name):
                    defs = [v for (_s, v) in bindings(fn).get(it.id, []) if v is not None]
                    it = defs[0] if len(defs) == 1 else it
                if isinstance(it, ast.Call) and norm(it.func).split(".")[-1] in ("find_replace", "finditer"):
                    loops.append((n, it))
        if not loops:
            # no scan at all: the answer is derived from the FIRST candidate (search(..), next(finditer(..))) - candidates arrive in tree-walk
            # order, so the one that starts at the first statement need not be the first
            firsts = [c for c in prog.calls_in(fn) if norm(c.func).split(".")[-1] in ("search", "next")]
            if firsts:
                res.bad("R13.4", fn.loc(firsts[0]), fn.fq, f"{name}: exhaustive scan",
                        f"{name}() looks at one candidate only ({short(firsts[0], 40)}): matches are reported by depth in the syntax tree, not from left to right, so a match "
                        "nested at the start of the first statement comes after a shallower one further down and is never examined")
                continue
        if len(loops) != 1:
            res.undecided("R13.4", fn.loc(), fn.fq, f"{name}: candidate scan", f"{len(loops)} loops over find_replace/finditer: scan written in an unrecognised way")
            continue
        loop, it = loops[0]
        argtexts = [norm(a) for a in it.args] + [norm(k.value) for k in it.keywords]
        same_input = all(p in argtexts for p in fn.posparams[:2])
        res.decide(same_input, "R13.4", fn.loc(loop), fn.fq, f"{name}: candidates", "all candidates of the same (pattern, source)" if same_input
                   else "the candidates are not computed from the function's own pattern and source")
        # a tree handed to the search (root=...) must be THE tree of the source: a pattern of several statements matches a
        # run of statements of a body, so any pruned tree (first statement only, one scope only) loses candidates
        for kw in it.keywords:
            if kw.arg != "root":
                continue
            val = kw.value
            if isinstance(val, ast.Name):
                defs = [v for (_s, v) in bindings(fn).get(val.id, [])]
                val = defs[0] if len(defs) == 1 and defs[0] is not None else None
            whole = (isinstance(val, ast.Call) and norm(val.func).split(".")[-1] == "parse" and val.args
                     and norm(val.args[0]) == fn.posparams[1] and len(val.args) == 1)
            res.decide(bool(whole), "R13.4", fn.loc(loop), fn.fq, f"{name}: tree searched",
                       "root= is the one parse of the function's own source" if whole else
                       f"root={norm(kw.value)} is not (only) the parse of the whole source: candidates outside that tree, and multi-statement "
                       "candidates reaching beyond it, are never examined")
        early = []
        for n in ast.walk(loop):
            if n is loop:
                continue
            if isinstance(n, ast.Break):
                early.append(n)
            if isinstance(n, ast.Return) and (n.value is None or (isinstance(n.value, ast.Constant) and n.value.value is None)):
                early.append(n)
        inner_loops = [n for n in ast.walk(loop) if n is not loop and isinstance(n, (ast.For, ast.While))]
        early = [e for e in early if not any(e in list(ast.walk(l)) for l in inner_loops)]
        ok = not early
        res.decide(ok, "R13.4", fn.loc(early[0]) if early else fn.loc(loop), fn.fq, f"{name}: exhaustive scan",
                   "the loop is left early only by returning a candidate" if ok else
                   f"`{short(early[0], 40)}` leaves the scan before every candidate was examined; candidates arrive in tree-walk order, "
                   "so an anchored match can come after a later-positioned one")
        from ..model import returns_after
        tails = returns_after(fn.node, loop)
        tail = tails[0] if tails else loop
        ok = all(t.value is None or norm(t.value) == "None" for t in tails)     # no return at all = None as well
        res.decide(ok, "R13.4", fn.loc(tail), fn.fq, f"{name}: result when no candidate is anchored", "None" if ok else "falling out of the scan no longer answers None")


# ---------------------------------------------------------------------------------------------- self-test
from ..selftest import Variant  # noqa: E402

VARIANTS: List[Variant] = [
    Variant("at-sign-search-without-comments", "FIRE", "core", "        at_sign = re.search(r\"@(?:[\\s\\\\(]|#[^\\n]*\\n)*\\Z\", source[:start_charno])\n", "        at_sign = re.search(r\"@[\\s\\\\(]*\\Z\", source[:start_charno])\n", "R13.8"),
    Variant("match-anchored-by-raw-position-of-first-statement", "FIRE", "pattern_matching", '        if m.span.start == module_body_range.start:\n            return m\n',
            "        if (m.lineno, m.col_offset) == (root.body[0].lineno, root.body[0].col_offset):\n            return m\n", "R13.1"),
    Variant("match-anchored-by-raw-line-of-first-statement", "FIRE", "pattern_matching", '        if m.span.start == module_body_range.start:\n            return m\n',
            "        first_statement = root.body[0]\n        if m.lineno == first_statement.lineno and m.span.start == module_body_range.start:\n            return m\n", "R13.10"),
    Variant("match-anchored-by-span-of-first-statement", "SILENT", "pattern_matching", '        if m.span.start == module_body_range.start:\n            return m\n',
            "        if m.span.start == core.get_charnos(root.body[0], source).start:\n            return m\n"),
    Variant("finder-reads-files-by-locale", "FIRE", "pattern_matching", "            with tokenize.open(filename) as stream:\n                source = stream.read()\n                encoding = stream.encoding\n", "            source = filename.read_text()\n            encoding = None\n", "R13.9"),
    Variant("finder-read-outside-a-handler", "FIRE", "pattern_matching", "        except (OSError, SyntaxError, UnicodeDecodeError) as error:", "        except OSError as error:", "R13.9"),
    Variant("peek-in-front-of-offset-zero", "FIRE", "core", "        at_sign = re.search(r\"@(?:[\\s\\\\(]|#[^\\n]*\\n)*\\Z\", source[:start_charno])\n        if at_sign:\n            start_charno = at_sign.start()\n", "        if source[start_charno - 1] == \"@\":\n            start_charno -= 1\n", "R13.6"),
    Variant("at-sign-directly-in-front-only", "FIRE", "core", "        at_sign = re.search(r\"@(?:[\\s\\\\(]|#[^\\n]*\\n)*\\Z\", source[:start_charno])\n", "        at_sign = re.search(r\"@\\Z\", source[:start_charno])\n", "R13.8"),
    Variant("string-pieces-trimmed-again", "FIRE", "core", "    if code and code[0] == \" \" and not isinstance(node, ast.Constant):", "    if code and code[0] == \" \":", "R13.7"),
    Variant("at-sign-pattern-with-character-class-spelled-out", "SILENT", "core", "        at_sign = re.search(r\"@(?:[\\s\\\\(]|#[^\\n]*\\n)*\\Z\", source[:start_charno])\n", "        at_sign = re.search(r\"@(?:[ \\t\\r\\n\\f\\v\\\\(]|#[^\\n]*\\n)*\\Z\", source[:start_charno])\n"),
    Variant("line-list-indexed-by-line-number-unbounded", "FIRE", "fixes",
            "            1 < safe_position_lineno < len(source_lines)  # The line below the last one is not indented\n", "            1 < safe_position_lineno\n", "R13.5"),
    Variant("line-list-indexed-by-line-number-minus-one", "SILENT", "fixes",
            "            1 < safe_position_lineno < len(source_lines)  # The line below the last one is not indented\n            and re.findall(r\"^\\s+\", source_lines[safe_position_lineno])",
            "            1 < safe_position_lineno\n            and re.findall(r\"^\\s+\", source_lines[safe_position_lineno - 2])"),
    Variant("charno-line-index-without-minus-one", "FIRE", "core", "    line = lines[lineno - 1]\n", "    line = lines[lineno]\n", "R13.5"),
    Variant("match-stops-at-first-later-candidate", "FIRE", "pattern_matching",
            "        if m.span.start == module_body_range.start:\n            return m\n",
            "        if m.span.start == module_body_range.start:\n            return m\n        if m.span.start > module_body_range.start:\n            break\n", "R13.4"),
    Variant("fullmatch-gives-up-on-first-candidate", "FIRE", "pattern_matching",
            "        if m.span == module_body_range:\n            return m\n",
            "        if m.span == module_body_range:\n            return m\n        return None\n", "R13.4"),
    Variant("match-scan-with-continue", "SILENT", "pattern_matching",
            "        if m.span.start == module_body_range.start:\n            return m\n",
            "        if m.span.start != module_body_range.start:\n            continue\n        return m\n"),
    Variant("column-added-without-conversion", "FIRE", "core",
            "        character_offset = len(line.encode(\"utf-8\")[:col_offset].decode(\"utf-8\", errors=\"ignore\"))\n",
            "        character_offset = col_offset\n", "R13.1"),
    Variant("line-table-from-splitlines", "FIRE", "core", "    for line in split_lines(source):\n        charnos.append(start)", "    for line in source.splitlines(keepends=True):\n        charnos.append(start)", "R13.2"),
    Variant("insert-nodes-splitlines", "FIRE", "processing", "    lines = list(core.split_lines(source))  # Not str.splitlines(), which disagrees with ast linenos", "    lines = source.splitlines(keepends=True)", "R13.2"),
    Variant("findall-filters", "FIRE", "pattern_matching", "    return [m.string for m in finditer(pattern, source)]", "    return [m.string for m in finditer(pattern, source) if m.string.strip()]", "R13.3"),
    Variant("match-string-off-by-one", "FIRE", "core", "        return self.source[self.start : self.end]", "        return self.source[self.start : self.end + 1]", "R13.3"),
    Variant("search-last-instead-of-first", "FIRE", "pattern_matching", "    return next(finditer(pattern, source), None)", "    return next(iter(reversed(list(finditer(pattern, source)))), None)", "R13.3"),
    Variant("position-named-tuple-renamed", "SILENT", "core", "class _Position(NamedTuple):", "class _NodePosition(NamedTuple):",
            extra=[("core", "def _get_position(node: ast.AST) -> _Position:", "def _get_position(node: ast.AST) -> _NodePosition:"),
                   ("core", "    return _Position(lineno, col_offset, end_lineno, end_col_offset)", "    return _NodePosition(lineno, col_offset, end_lineno, end_col_offset)")]),
    Variant("line-table-with-finditer", "SILENT", "core",
            "    return tuple(re.findall(r\"[^\\r\\n]*(?:\\r\\n|\\r|\\n)|[^\\r\\n]+\", source))",
            "    lines = re.findall(r\"[^\\r\\n]*(?:\\r\\n|\\r|\\n)|[^\\r\\n]+\", source)\n    return tuple(lines)"),
]

META = {
    "design_ref": "DESIGN.md section 3, C13",
    "technique": "dimension typing (UTF-8 byte columns vs character offsets; tokenizer lines vs str.splitlines lines) + def-use checks of the API wrappers + exit-shape check of the candidate scans of match / fullmatch; Match coordinates typed as span coordinates; newline-only line splitters",
    "level_text": ("Decides on the current source that no position computation mixes ast byte columns with character "
                   "offsets without conversion, that no splitlines-derived list or table is indexed by an ast line number, "
                   "and that findall/search/finditer/Match.string are the stated derivations. It does not decide the "
                   "decorator and whitespace adjustments of get_charnos nor the span logic of match/fullmatch."),
    "level_note": "Trusted: CPython ast; the typing rules of sa/props/c13.py; the language reference for the units of col_offset and lineno.",
}
