"""C05 Formatting is a pure function of its input - history independence (DESIGN 3/C05)."""
from __future__ import annotations

import ast
import os
from typing import Dict, List, Optional

from ..model import AnalysisError, Func, Program, ancestors, norm, parent, short, walk_own, walk_body
from ..ownership import Ownership, _is_mutable_display
from ..report import Result

FIXTURE = os.path.join(os.path.dirname(os.path.dirname(os.path.abspath(__file__))), "fixtures", "c05")
GLOBAL_STATE = {"sys.path", "sys.stdout", "sys.stderr", "sys.stdin", "sys.argv", "os.environ", "sys.modules"}


LATER_RULES = ' Later rules: (R5.5) memoised functions reach no environment read; (R5.6) escaping closures mutate no enclosing mutable; (R5.7) adopts the C06 order rules (R6.2, R6.4, R6.5).'


def check(prog: Program, tier: str) -> Result:
    res = Result(
        "C05",
        explanation=(
            "Ownership / escape abstract interpretation of all functions of the package (interprocedural through "
            "parameter-mutation and result-shape summaries, fixpoint over the call graph): (R5.1) every statement that "
            "can mutate an object - attribute / item store, del, list/dict/set mutator, augmented assignment, "
            "setattr, ast.copy_location, ast.increment_lineno, a NodeTransformer pass, a call of a repository function "
            "whose summary says it mutates that parameter - is an instance; the obligation is that nothing reachable "
            "from the mutated value originates in the result of an lru_cache'd function (core.parse, "
            "core.compile_template, tracing.trace_origin, core._group_nodes_in_scope, detected from the decorator). "
            "(R5.2) the same sinks on module-level mutable objects, `global` statements and mutable default arguments "
            "that are mutated: zero expected, with a positive-control fixture that must be reported on every run. "
            "(R5.3) writes to interpreter-global state (sys.path, sys.stdout, os.environ, os.chdir) are undone in a "
            "finally of the same try. (R5.4) no identity comparison (is / in / id) between objects of two different cache origins - "
            "identity depends on which call filled the cache first. Not decided: that cached functions depend on their arguments only "
            "(trace_origin reads the file system)."),
        rule_text="instances = mutation sites (sinks) reached by the abstract interpreter, one per (function, statement); non-trivial = the mutated value may alias a parameter or a cached object",
    )
    res.explanation += LATER_RULES
    res.trusted_base = ["CPython ast", "sa/ownership.py abstract interpreter",
                        "hand-confirmed result shapes of core.walk, walk_wildcard, walk_sequence, filter_nodes, match_template, merge_matches, _group_nodes_in_scope (elements derive from their first argument)"]
    res.assumptions = ["ast.fix_missing_locations only fills absent position attributes: no change to parsed nodes, but a mutation of the position-less nodes of compiled templates (modelled)",
                       "a NodeTransformer pass cannot change a leaf node (ast.Name / ast.Constant have no AST-valued fields besides the shared context singleton)",
                       "containers are tracked one level deep with tuple shapes; deeper aliasing degrades to 'other' (no report)"]
    own = Ownership(prog)
    cache_hits = {(f.fn.fq, norm(f.node)): f for f in own.unique_findings()}
    for (fq, text), (fn, stmt, what, hit) in sorted(own.sink_sites.items()):
        f = cache_hits.get((fq, text))
        if f is not None and f.origin.startswith("cache:"):
            res.bad("R5.1", fn.loc(stmt), fq, text[:160],
                    f"{f.what}: the mutated object is reachable from the cached result of {f.origin[6:]}(); every later call with the same text sees the modified object")
        elif f is not None and f.origin.startswith("module:"):
            res.bad("R5.2", fn.loc(stmt), fq, text[:160], f"{f.what}: module-level object {f.origin[7:]} is mutated at run time; later calls depend on earlier ones")
        else:
            res.ok("R5.1", fn.loc(stmt), fq, text[:160], what, trivial=not _touches_param(own, fn))
    # ---------------- R5.5 memoised functions do not read the environment
    _r5_5(prog, res)
    # ---------------- R5.6 closures that outlive their factory keep no mutable state
    _r5_6(prog, res)
    _r5_8(prog, res)
    # ---------------- R5.4 identity across caches
    seen_id = set()
    for f in own.identity_findings:
        if (f.fn.fq, norm(f.node)) in seen_id:
            continue
        seen_id.add((f.fn.fq, norm(f.node)))
        res.bad("R5.4", f.fn.loc(f.node), f.fn.fq, norm(f.node)[:160],
                f"objects from two different caches ({f.origin}) are compared by identity / membership ({f.what}): the caches have different sizes, "
                "so after one of them evicted and re-created its entry the same source yields distinct objects and the answer depends on the call history")
    res.ok("R5.4", "pyrefact/", "package", "identity comparisons across cache origins", f"{len(seen_id)} found", trivial=True)
    # ---------------- R5.2 global statements, mutable defaults
    for fn in prog.funcs.values():
        for n in walk_own(fn.node):
            if isinstance(n, ast.Global):
                res.bad("R5.2", fn.loc(n), fn.fq, norm(n), "module-level state rebound at run time")
        a = fn.node.args
        defaults = list(zip([x.arg for x in (a.posonlyargs + a.args)][-len(a.defaults):] if a.defaults else [], a.defaults)) + \
            [(x.arg, d) for x, d in zip(a.kwonlyargs, a.kw_defaults) if d is not None]
        for name, d in defaults:
            if _is_mutable_display(d):
                mutated = name in own.summaries[fn.key].mutates
                res.decide(not mutated, "R5.2", fn.loc(d), fn.fq, f"default {name}={norm(d)}",
                           "mutable default is never mutated" if not mutated else
                           f"mutable default argument is mutated ({own.summaries[fn.key].mutates[name]}): state survives between calls")
    res.ok("R5.2", "pyrefact/", "package", "module-level mutable objects",
           f"{sum(1 for m in prog.modules.values() for v in m.globals.values() if _is_mutable_display(v))} module-level mutable displays, none mutated from a function", trivial=True)
    # positive control
    if prog.root != os.path.abspath(FIXTURE):
        fx = Ownership(Program(FIXTURE))
        origins = {f.origin.split(":")[0] for f in fx.unique_findings()}
        if not fx.identity_findings:
            res.errors.append("positive control for R5.4 (identity across caches) not reported")
        if not {"cache", "module"} <= origins:
            res.errors.append(f"positive control not reported (origins found: {sorted(origins)}): the ownership analysis lost its teeth")
        else:
            res.ok("R5.2", "sa/fixtures/c05/pyrefact/state.py", "fixture", "positive control", "fixture violations of R5.1 and R5.2 are reported", trivial=True)
    # ---------------- R5.3 interpreter-global state
    _r5_3(prog, res)
    # ---------------- R5.7 "identical to the result in a fresh process": the order in which same-position rewrites are applied and
    # sets are walked must not come from hash seeds or memory addresses - decided by the C06 check (R6.2, R6.4, R6.5), adopted
    from . import c06 as _c06
    _tmp = Result("C06", "", "")
    _c06._r6_2(prog, _tmp)
    _c06._r6_4(prog, _tmp)
    _c06._r6_5(prog, _tmp)
    res.adopt(_tmp, {"R6.2", "R6.4", "R6.5"}, "R5.7", "a fresh process has another hash seed and other addresses: an order taken from them makes the same call answer differently there")
    res.floors.update({"R5.1": 150, "R5.3": 2, "R5.7": 10})
    res.analysed.update({"summary_rounds": own.rounds, "sink_evaluations": own.sinks_seen,
                         "cached_origins": sorted(own.cached_origins.values()),
                         "functions_mutating_a_parameter": sorted(f"{k[0]}.{k[1]}({', '.join(sorted(s.mutates))})" for k, s in own.summaries.items() if s.mutates)})
    return res


def _touches_param(own: Ownership, fn: Func) -> bool:
    return bool(own.summaries[fn.key].mutates)


def _global_target(prog: Program, fn: Func, e: ast.AST) -> Optional[str]:
    d = prog.dotted(e)
    if not d:
        return None
    head, *rest = d.split(".")
    al = fn.mod.aliases.get(head)
    if al and al[0] == "ext":
        full = ".".join([al[1], *rest])
        for g in GLOBAL_STATE:
            if full == g or full.startswith(g + "."):
                return g
    return None


def _r5_3(prog: Program, res: Result) -> None:
    n = 0
    for fn in prog.funcs.values():
        for node in walk_own(fn.node):
            target = None
            kind = None
            if isinstance(node, ast.Assign):
                for t in node.targets:
                    g = _global_target(prog, fn, t) or (isinstance(t, ast.Subscript) and _global_target(prog, fn, t.value))
                    if g:
                        target, kind = g, "assign"
            elif isinstance(node, ast.Call) and isinstance(node.func, ast.Attribute) and node.func.attr in (
                    "append", "insert", "extend", "pop", "remove", "update", "setdefault", "clear"):
                g = _global_target(prog, fn, node.func.value)
                if g:
                    target, kind = g, node.func.attr
            elif isinstance(node, ast.Call):
                d = prog.dotted(node.func)
                if d:
                    head, *rest = d.split(".")
                    al = fn.mod.aliases.get(head)
                    if al and al[0] == "ext" and ".".join([al[1], *rest]) in ("os.chdir", "os.putenv", "sys.setrecursionlimit"):
                        target, kind = ".".join([al[1], *rest]), "call"
            if target is None:
                continue
            # is this write itself the restoring one (inside a finally)?
            in_finally = False
            prev = node
            guarded = None
            for a in ancestors(node):
                if a is fn.node:
                    break
                if isinstance(a, ast.Try):
                    if any(prev is s or any(prev is x for x in ast.walk(s)) for s in a.finalbody):
                        in_finally = True
                    elif a.finalbody and guarded is None and (any(prev is s for s in a.body)):
                        guarded = a
                prev = a
            if in_finally:
                continue
            n += 1
            ok = False
            detail = "write to interpreter-global state outside any try/finally that undoes it"
            if guarded is not None:
                undo = False
                for s in walk_body(guarded.finalbody):
                    if kind == "assign" and isinstance(s, ast.Assign) and any(_global_target(prog, fn, t) == target for t in s.targets):
                        # restored from a value read before the try
                        undo = isinstance(s.value, ast.Name)
                    if kind in ("append", "insert", "extend") and isinstance(s, ast.Call) and isinstance(s.func, ast.Attribute) \
                            and s.func.attr in ("pop", "remove") and _global_target(prog, fn, s.func.value) == target:
                        undo = True
                ok = undo
                detail = "undone in the finally clause of the enclosing try" if ok else "the finally clause does not undo this write"
            res.decide(ok, "R5.3", fn.loc(node), fn.fq, short(node, 80), f"{target}: {detail}")
    res.analysed["global_state_writes"] = n


def _r5_8(prog: Program, res: Result) -> None:
    """A mutable default argument (`seen: Set[str] = set()`, `memo={}`) is created ONCE, when the function is defined, and every
    call that leaves the argument out gets the same object.  A function that mutates it keeps state from one call to the next:
    "versions of the text already seen", "templates already visited".  Obligation: no parameter whose default is a mutable
    object is mutated in the function (mutator method, item store, augmented assignment), directly or by being handed to a
    repository function that mutates that parameter (one level)."""
    from ..loopstate import MUTATORS
    n = 0
    for fn in prog.funcs.values():
        args = fn.node.args
        pos = args.posonlyargs + args.args
        defaults = dict(zip([a.arg for a in pos[len(pos) - len(args.defaults):]], args.defaults))
        defaults.update({a.arg: d for a, d in zip(args.kwonlyargs, args.kw_defaults) if d is not None})
        for p_name, d in defaults.items():
            mutable = isinstance(d, (ast.Dict, ast.List, ast.Set, ast.ListComp, ast.SetComp, ast.DictComp)) or (
                isinstance(d, ast.Call) and norm(d.func).split(".")[-1] in ("set", "dict", "list", "defaultdict", "OrderedDict", "Counter", "deque", "bytearray"))
            if not mutable:
                continue
            n += 1
            rebinds = any(isinstance(x, ast.Name) and x.id == p_name and isinstance(x.ctx, ast.Store) for x in walk_own(fn.node))
            hit = None
            for x in walk_own(fn.node):
                if isinstance(x, ast.Call) and isinstance(x.func, ast.Attribute) and x.func.attr in MUTATORS and isinstance(x.func.value, ast.Name) and x.func.value.id == p_name:
                    hit = x
                elif isinstance(x, ast.Subscript) and isinstance(x.ctx, (ast.Store, ast.Del)) and isinstance(x.value, ast.Name) and x.value.id == p_name:
                    hit = x
                elif isinstance(x, ast.AugAssign) and isinstance(x.target, ast.Name) and x.target.id == p_name:
                    hit = x
            if hit is not None and rebinds:
                # `if seen is None: seen = set()` style rebinding before the mutation: a may-analysis would have to order the two
                res.undecided("R5.8", fn.loc(hit), fn.fq, f"{short(hit, 60)} # parameter '{p_name}' with a mutable default", "the parameter is also re-bound in the function")
                continue
            res.decide(hit is None, "R5.8", fn.loc(hit) if hit is not None else fn.loc(d), fn.fq,
                       f"{short(hit, 60) if hit is not None else p_name + '=' + norm(d)} # parameter '{p_name}' with a mutable default",
                       "never mutated" if hit is None else
                       f"the default of '{p_name}' ({norm(d)}) is one object for the whole process and is mutated here: every call that leaves '{p_name}' out sees what earlier "
                       "calls put in - the result depends on what the process did before")
    if n == 0:
        res.ok("R5.8", "pyrefact/", "package", "parameters with mutable defaults", "none", trivial=True)


def _r5_6(prog: Program, res: Result) -> None:
    """A function that is RETURNED by the function it is defined in (a decorator's wrapper, a factory's product) lives
    as long as the decorated rule does - for the whole process.  A mutable object created in the enclosing call and
    mutated inside the returned function is state that persists from one call of the rule to the next: a hand-made memo
    ("sources this rule left unchanged", "results already computed").  Unless everything the result depends on is part
    of the key - and the options `preserve`, `max_line_length`, the files on disk are not - a later call replays what
    was true for an earlier one.  Instance: every escaping nested function; obligation: it mutates no variable of an
    enclosing function scope."""
    from ..loopstate import MUTATORS
    n = 0
    for w in prog.funcs.values():
        outer = getattr(w, "outer", None)
        if outer is None:
            continue
        # does the enclosing function hand w out?
        escapes = any(isinstance(r, ast.Return) and r.value is not None and any(isinstance(x, ast.Name) and x.id == w.name for x in ast.walk(r.value))
                      for r in walk_own(outer.node))
        if not escapes:
            continue
        n += 1
        own = set(w.all_params) | {x.id for x in walk_own(w.node) if isinstance(x, ast.Name) and isinstance(x.ctx, ast.Store)}
        # mutable objects created in an enclosing function scope (any depth)
        enclosing = {}
        o = outer
        while o is not None:
            for a in walk_own(o.node):
                if isinstance(a, ast.Assign) and len(a.targets) == 1 and isinstance(a.targets[0], ast.Name):
                    v = a.value
                    mutable = isinstance(v, (ast.Dict, ast.List, ast.Set, ast.ListComp, ast.SetComp, ast.DictComp)) or (
                        isinstance(v, ast.Call) and norm(v.func).split(".")[-1] in ("set", "dict", "list", "defaultdict", "OrderedDict", "Counter", "deque"))
                    if mutable:
                        enclosing.setdefault(a.targets[0].id, (o, a))
            o = getattr(o, "outer", None)
        hits = []
        for x in walk_own(w.node):
            name = None
            if isinstance(x, ast.Call) and isinstance(x.func, ast.Attribute) and x.func.attr in MUTATORS and isinstance(x.func.value, ast.Name):
                name = x.func.value.id
            elif isinstance(x, ast.Subscript) and isinstance(x.ctx, (ast.Store, ast.Del)) and isinstance(x.value, ast.Name):
                name = x.value.id
            elif isinstance(x, ast.AugAssign) and isinstance(x.target, ast.Name):
                name = x.target.id if any(isinstance(g, ast.Nonlocal) and x.target.id in g.names for g in walk_own(w.node)) else None
            if name and name not in own and name in enclosing:
                hits.append((name, x))
        if not hits:
            res.ok("R5.6", w.loc(), w.fq, f"{w.name}() handed out by {outer.name}()", "mutates no variable of an enclosing scope", trivial=True)
            continue
        name, node = hits[0]
        o_, a_ = enclosing[name]
        res.bad("R5.6", w.loc(node), w.fq, f"{short(node, 60)} # '{name}' of {o_.name}()",
                f"'{name}' is created once per call of {o_.name}() (line {a_.lineno}) and mutated here, inside the function that {outer.name}() hands out: it persists across "
                f"calls of {w.name}(), so what one call records is replayed by later calls - also when the options or the environment differ")
    res.analysed["escaping_closures"] = n


ENV_READS = {
    # dotted callee (or method name after "."): what of the environment it reads
    "open": "the file system", "__import__": "the import system", "importlib.import_module": "the import system",
    "importlib.util.find_spec": "the import system / sys.path", "os.getcwd": "the working directory", "os.listdir": "the file system",
    "os.environ.get": "environment variables", "os.getenv": "environment variables", "pathlib.Path.cwd": "the working directory", "Path.cwd": "the working directory",
}
ENV_METHODS = {"open": "the file system", "read_text": "the file system", "read_bytes": "the file system", "exists": "the file system",
               "is_file": "the file system", "is_dir": "the file system", "iterdir": "the file system", "glob": "the file system", "rglob": "the file system",
               "absolute": "the working directory", "resolve": "the file system"}


def _r5_5(prog: Program, res: Result) -> None:
    """A memoised function (functools.lru_cache / cache) answers later calls from its table.  If its result depends on
    anything but its arguments - files, the import system, the working directory, sys.path, environment variables - a
    later call with the same arguments returns what was true EARLIER: the result of formatting then depends on the
    history of the process.  Effect analysis over the call graph: environment reads (table ENV_READS / ENV_METHODS,
    sys.path / os.environ mentions) in the function or in any repository function it can reach."""
    reads: Dict[Tuple[str, str], List[Tuple[ast.AST, str]]] = {}
    for f in prog.funcs.values():
        out = []
        for c in prog.calls_in(f):
            d = prog.dotted(c.func) or ""
            if d in ENV_READS:
                out.append((c, f"{d}() reads {ENV_READS[d]}"))
            elif isinstance(c.func, ast.Attribute) and c.func.attr in ENV_METHODS and not d.startswith(("re.", "str.", "core.", "ast.")):
                r = prog.resolve_call(c.func, f.mod, f)
                if not (r and r[0] in ("fn", "cls")):
                    recv = norm(c.func.value)
                    if c.func.attr in ("open", "read_text", "read_bytes", "exists", "is_file", "is_dir", "iterdir", "glob", "rglob") or "Path" in recv or "path" in recv.lower():
                        out.append((c, f"{short(c, 40)} reads {ENV_METHODS[c.func.attr]}"))
        for n in walk_own(f.node):
            if isinstance(n, ast.Attribute) and norm(n) in ("sys.path", "os.environ"):
                out.append((n, f"{norm(n)} is process-wide state"))
        reads[f.key] = out
    # transitive closure over resolved repository calls
    callees: Dict[Tuple[str, str], Set[Tuple[str, str]]] = {}
    for f in prog.funcs.values():
        cs = set()
        for c in prog.calls_in(f):
            r = prog.resolve_call(c.func, f.mod, f)
            if r and r[0] == "fn":
                cs.add(r[1].key)
        callees[f.key] = cs
    # one named exemption: configuration that no call of the tool ever writes (the property quantifies over histories of
    # CALLS; the formatter rewrites python sources, never pyproject.toml)
    READS_CONFIG_ONLY = {("core", "parse_line_length_from_pyproject_toml"): "reads pyproject.toml, which no entry point of the tool writes: earlier calls cannot change it"}
    n = 0
    for f in sorted(prog.funcs.values(), key=lambda x: x.fq):
        if not f.is_cached:
            continue
        n += 1
        if f.key in READS_CONFIG_ONLY and "pyproject.toml" in norm(f.node):
            res.ok("R5.5", f.loc(), f.fq, f"memoised {f.name}()", READS_CONFIG_ONLY[f.key])
            continue
        seen, todo, hit = set(), [f.key], None
        while todo and hit is None:
            k = todo.pop()
            if k in seen:
                continue
            seen.add(k)
            if reads.get(k):
                g = prog.funcs[k]
                node, what = reads[k][0]
                hit = (g, node, what)
            todo.extend(callees.get(k, ()))
        if hit is None:
            res.ok("R5.5", f.loc(), f.fq, f"memoised {f.name}()", f"no environment read in {len(seen)} reachable function(s): the result depends on the arguments only")
        else:
            g, node, what = hit
            via = "" if g is f else f" (through {g.fq})"
            res.bad("R5.5", f.loc(), f.fq, f"memoised {f.name}()",
                    f"{what} at {g.loc(node)}{via}: the memoised result outlives the state it was computed from, a later call with the same arguments "
                    "returns the earlier answer and the output of formatting depends on what the process did before")
    res.analysed["memoised_functions"] = n


def adopt_memo_rule(prog: Program, res: Result, as_rule: str, anchors, why: str) -> int:
    """R5.5 (memoised functions do not read the environment) restricted to the memoised functions reachable from `anchors`
    (function keys), adopted under another property's rule."""
    reach, todo = set(), [k for k in anchors if k in prog.funcs]
    while todo:
        k = todo.pop()
        if k in reach:
            continue
        reach.add(k)
        f = prog.funcs[k]
        for c in prog.calls_in(f):
            r = prog.resolve_call(c.func, f.mod, f)
            if r and r[0] == "fn":
                todo.append(r[1].key)
    fqs = {prog.funcs[k].fq for k in reach}
    tmp = Result("C05", "", "")
    _r5_5(prog, tmp)
    return res.adopt(tmp, {"R5.5"}, as_rule, why, keep=lambda o: o.func in fqs)


# ---------------------------------------------------------------------------------------------- self-test
from ..selftest import Variant  # noqa: E402

VARIANTS = [
    Variant("module-file-lookup-memoised", "FIRE", "tracing",
            "def _trace_module_source_file(module: str) -> str | None:", "@functools.lru_cache(maxsize=1000)\ndef _trace_module_source_file(module: str) -> str | None:", "R5.5"),
    Variant("trace-origin-not-memoised", "SILENT", "tracing",
            "@functools.lru_cache(maxsize=100_000)\ndef trace_origin(", "def trace_origin("),
    Variant("fix-missing-locations-on-template-parts", "FIRE", "performance",
            "            replacement = ast.Call(func=func, args=[value] + args, keywords=keywords)\n            yield node, replacement\n",
            "            replacement = ast.Call(func=func, args=[value] + args, keywords=keywords)\n            yield node, ast.fix_missing_locations(ast.copy_location(replacement, node))\n", "R5.1"),
    Variant("move-before-loop-no-copy", "FIRE", "fixes", "            new_node = copy.copy(node)\n            new_node.lineno = scope.lineno - 1", "            new_node = node\n            new_node.lineno = scope.lineno - 1", "R5.1"),
    Variant("with-added-indent-shallow", "FIRE", "parsing", "    clone = copy.deepcopy(node)\n", "    clone = copy.copy(node)\n", "R5.1"),
    Variant("sort-cached-body", "FIRE", "fixes", "    root = core.parse(source)\n\n    for scope in core.walk(root, (ast.For, ast.While)):",
            "    root = core.parse(source)\n    root.body.sort(key=lambda n: n.lineno)\n\n    for scope in core.walk(root, (ast.For, ast.While)):", "R5.1"),
    Variant("append-to-walked-node", "FIRE", "fixes",
            "    for node in core.walk(root, ast.If):\n        if not node.orelse:\n            continue\n        if not core.get_code(node, source).startswith(\"if\"):",
            "    for node in core.walk(root, ast.If):\n        if not node.orelse:\n            node.orelse.append(ast.Pass())\n            continue\n        if not core.get_code(node, source).startswith(\"if\"):", "R5.1"),
    Variant("module-level-memo", "FIRE", "style", "def _list_words(name: str) -> Sequence[str]:\n",
            "_MEMO = {}\n\n\ndef _list_words(name: str) -> Sequence[str]:\n    _MEMO[name] = True\n", "R5.2"),
    Variant("stdout-not-restored", "FIRE", "main", "        finally:\n            sys.stdout = sys_stdout\n", "        finally:\n            pass\n", "R5.3"),
    Variant("sys-path-not-popped", "FIRE", "tracing", "        finally:\n            sys.path.pop()\n", "        finally:\n            pass\n", "R5.3"),
    Variant("identity-across-caches", "FIRE", "tracing", "            if core.match_template(trace_result.ast, template):", "            if trace_result.ast in template:", "R5.4"),
    Variant("explicit-constructor-instead-of-copy", "SILENT", "fixes", "            new_node = copy.copy(node)\n            new_node.lineno = scope.lineno - 1",
            "            new_node = ast.Assign(targets=node.targets, value=node.value) if isinstance(node, ast.Assign) else copy.copy(node)\n            new_node.lineno = scope.lineno - 1"),
    Variant("mutate-list-built-from-cached-nodes", "SILENT", "fixes",
            "    for node in core.walk(root, ast.If):\n        if not node.orelse:\n            continue\n        if not core.get_code(node, source).startswith(\"if\"):",
            "    ifs = [n for n in core.walk(root, ast.If)]\n    ifs.sort(key=lambda n: n.lineno)\n    ifs.append(None)\n    ifs.pop()\n    for node in ifs:\n        if not node.orelse:\n            continue\n        if not core.get_code(node, source).startswith(\"if\"):"),
    Variant("deepcopy-then-mutate", "SILENT", "fixes", "            new_node = copy.copy(node)\n            new_node.lineno = scope.lineno - 1",
            "            new_node = copy.deepcopy(node)\n            new_node.value.lineno = 1\n            new_node.lineno = scope.lineno - 1"),
]

META = {
    "design_ref": "DESIGN.md section 3, C05",
    "technique": "interprocedural ownership / escape abstract interpretation (shared-AST mutation), module-state and paired-global-state lints; effect analysis of memoised functions over the call graph; escaping closures and mutated default arguments",
    "level_text": ("Decides on the current source, for every mutation site in the package, whether the mutated object can "
                   "be reachable from the result of an lru_cache'd function or from module-level state; interprocedural "
                   "through per-function summaries (which parameters are mutated, what the result derives from) computed "
                   "to a fixpoint. A violation names the statement and the cache origin. It is a may-analysis: a report "
                   "names a syntactic flow, each report on the pinned tree was confirmed dynamically before being "
                   "repaired or listed. It does not decide that cached functions depend on their arguments only."),
    "level_note": "Trusted: CPython ast; the abstract interpreter in sa/ownership.py; seven hand-confirmed result shapes of core's matching primitives; assumptions on ast.fix_missing_locations and leaf nodes listed in the evidence.",
}
