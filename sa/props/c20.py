"""C20 Opt-out comments are honoured (partial, DESIGN 3/C20)."""
from __future__ import annotations

import ast
import re
import re._parser as sre_parse  # regex ASTs of literal patterns (evaluates my reading of the pattern, not pyrefact)
from typing import Dict, List, Optional, Tuple

from ..defuse import assignments, call_arg, names_in
from ..model import AnalysisError, Func, Program, norm, parent, short, walk_own, walk_body
from ..pathcond import plain, Lit, PathAnalysis, atoms_of, entails, show, show_text
from ..report import Result
from ..textflow import CHARS, LINES, WHOLE, TextFlow


# ------------------------------------------------------------------------------------------------ regex helpers
def regex_literal(prog: Program, e: ast.AST, fn: Func, depth: int = 0) -> Optional[str]:
    """The pattern text an expression denotes: a str constant, a module constant, re.compile(<that>)."""
    if depth > 4:
        return None
    if isinstance(e, ast.Constant) and isinstance(e.value, str):
        return e.value
    if isinstance(e, ast.Call) and prog.dotted(e.func) in ("re.compile",) and e.args:
        return regex_literal(prog, e.args[0], fn, depth + 1)
    if isinstance(e, ast.Name):
        defs = assignments(fn, e.id) if fn is not None else []
        if len(defs) == 1 and defs[0][1] is not None:
            return regex_literal(prog, defs[0][1], fn, depth + 1)
        if not defs and e.id in fn.mod.globals:
            return regex_literal(prog, fn.mod.globals[e.id], fn, depth + 1)
    if isinstance(e, ast.Attribute):
        d = prog.dotted(e)
        if d:
            head, *rest = d.split(".")
            al = fn.mod.aliases.get(head)
            if al and al[0] == "module" and len(rest) == 1:
                m = prog.modules.get(al[1])
                if m and rest[0] in m.globals:
                    class _F:  # minimal stand-in for a module-level context
                        mod = m
                    fake = type("F", (), {"mod": m})()
                    return regex_literal_global(prog, m.globals[rest[0]], m, depth + 1)
    return None


def regex_literal_global(prog: Program, e: ast.AST, mod, depth: int = 0) -> Optional[str]:
    if depth > 4:
        return None
    if isinstance(e, ast.Constant) and isinstance(e.value, str):
        return e.value
    if isinstance(e, ast.Call) and prog.dotted(e.func) in ("re.compile",) and e.args:
        return regex_literal_global(prog, e.args[0], mod, depth + 1)
    if isinstance(e, ast.Name) and e.id in mod.globals:
        return regex_literal_global(prog, mod.globals[e.id], mod, depth + 1)
    return None


def regex_search_call(prog: Program, e: ast.AST, fn: Func) -> Optional[Tuple[str, ast.AST]]:
    """(pattern text, searched expression) for re.findall/search/finditer(P, X) and <compiled>.search/findall(X)."""
    if not isinstance(e, ast.Call):
        return None
    d = prog.dotted(e.func)
    if d in ("re.findall", "re.search", "re.finditer") and len(e.args) >= 2:
        p = regex_literal(prog, e.args[0], fn)
        if p is not None:
            return p, e.args[1]
    if isinstance(e.func, ast.Attribute) and e.func.attr in ("search", "findall", "finditer") and len(e.args) >= 1:
        p = regex_literal(prog, e.func.value, fn)
        if p is not None:
            return p, e.args[0]
    return None


def skip_test_of(prog: Program, e: ast.AST, fn: Func, depth: int = 0) -> Optional[Tuple[str, ast.AST, str]]:
    """(pattern, tested text expr, where the pattern lives) if e tests a text for a skip_file comment."""
    rs = regex_search_call(prog, e, fn)
    if rs and "skip_file" in rs[0]:
        return rs[0], rs[1], fn.fq
    if isinstance(e, ast.Call) and depth < 2:
        r = prog.resolve_call(e.func, fn.mod, fn)
        if r and r[0] == "fn" and len(e.args) >= 1:
            callee = r[1]
            rets = [n for n in walk_own(callee.node) if isinstance(n, ast.Return) and n.value is not None]
            if len(rets) == 1 and callee.posparams:
                v = rets[0].value
                if isinstance(v, ast.Call) and prog.dotted(v.func) == "bool" and v.args:
                    v = v.args[0]
                if isinstance(v, ast.Compare) and isinstance(v.comparators[0], ast.Constant) and v.comparators[0].value is None:
                    v = v.left
                inner = skip_test_of(prog, v, callee, depth + 1)
                if inner and isinstance(inner[1], ast.Name) and inner[1].id == callee.posparams[0]:
                    return inner[0], e.args[0], inner[2]
    return None


def normalise_regex(pattern: str):
    """Parsed pattern as a nested tuple structure with literal runs merged (no positions)."""
    def conv(sub):
        out = []
        lit = []
        for op, av in sub:
            name = str(op)
            if name == "LITERAL":
                lit.append(chr(av))
                continue
            if lit:
                out.append(("lit", "".join(lit)))
                lit = []
            if name in ("MAX_REPEAT", "MIN_REPEAT"):
                lo, hi, body = av
                out.append((name, lo, int(hi) if str(hi) != "MAXREPEAT" else "inf", conv(body)))
            elif name == "SUBPATTERN":
                out.append(("group", conv(av[3])))
            elif name == "BRANCH":
                out.append(("branch", tuple(conv(b) for b in av[1])))
            elif name == "IN":
                out.append(("in", tuple(sorted(str(x) for x in av))))
            else:
                out.append((name, str(av)))
        if lit:
            out.append(("lit", "".join(lit)))
        return tuple(out)
    return conv(sre_parse.parse(pattern))


def restrict_to(struct, word: str):
    """Replace every branch/group alternative list by the alternative containing `word` (if any)."""
    out = []
    for item in struct:
        if item[0] == "group":
            out.extend(restrict_to(item[1], word))
        elif item[0] == "branch":
            alts = [a for a in item[1] if word in repr(a)]
            out.extend(restrict_to(alts[0], word) if alts else [item])
        else:
            out.append(item)
    # merge adjacent literals
    merged = []
    for item in out:
        if merged and item[0] == "lit" and merged[-1][0] == "lit":
            merged[-1] = ("lit", merged[-1][1] + item[1])
        else:
            merged.append(item)
    return tuple(merged)


PROBES = ["# pyrefact: skip_file", "#pyrefact: skip_file", "# pyrefact:skip_file", "#pyrefact:skip_file",
          "#  pyrefact  :  skip_file", "#\tpyrefact:\tskip_file", "# pyrefact : skip_file"]


def file_probes(line_pattern: Optional[str]) -> List[Tuple[str, bool]]:
    """(file text, does it carry a skip_file comment).  The spelling variants count as skip_file comments when the
    per-line pattern of has_ignore_comment takes them for one (the two grammars must agree); the documented spelling always."""
    def is_skip(comment: str) -> bool:
        if comment == "# pyrefact: skip_file":
            return True
        if line_pattern is None:
            return False
        m = re.search(line_pattern, comment)
        return bool(m) and "skip_file" in m.group(0)
    out = [("x = 1\n", False), ("x = 1  # pyrefact: ignore\n", False), ("", False), ("x = 'skip_file'\n", False)]
    for c in PROBES:
        lab = is_skip(c)
        out += [(c + "\nx = 1\n", lab), ("x = 1\n" + c + "\ny = 2\n", lab), ("x = 1  " + c, lab),
                ("x = 1  # pyrefact: ignore\ny = 2  " + c + "\n", lab), (c + "\nx = 1  # pyrefact: ignore\n", lab),
                ("x = 1  # pyrefact: ignore  " + c + "\n", lab), ("def f():\n    return 1  " + c + "\n", lab)]
    return out


def find_skip_test(prog: Program, fn: Func):
    """The statement of format_code that decides the file opt-out, found by what it COMPUTES: an `if` whose branch hands
    the text parameter back and whose test - interpreted by sa/strexpr.py on probe files, helpers included - is true for a
    file with the documented comment and false for a file without any.  -> (if statement, {probe: verdict}) or None;
    falls back to the syntactic recogniser (regex search on the parameter) when the test cannot be interpreted."""
    from .. import strexpr
    p = fn.posparams[0]
    _, line = _patterns(prog, only_line=True)
    probes = file_probes(line[0] if line else None)
    for s_ in walk_body(fn.node.body):
        if not (isinstance(s_, ast.If) and s_.body and isinstance(s_.body[-1], ast.Return) and isinstance(s_.body[-1].value, ast.Name)):
            continue
        verdicts = {}
        try:
            with strexpr.context(prog, fn):
                for text, _lab in probes:
                    verdicts[text] = bool(strexpr.ev(s_.test, {p: text}))
        except strexpr.Unsupported:
            continue
        except Exception:          # the interpreted test raised on a probe: not a total test of the text
            continue
        if verdicts["# pyrefact: skip_file\nx = 1\n"] and not verdicts["x = 1\n"]:
            return s_, verdicts, probes
    return None


# ------------------------------------------------------------------------------------------------ the check
LATER_RULES = ' Later rules: R20.1/R20.2 identify the skip test by interpreting it on probe files (sa/strexpr.py) and require all 49 skip_file probes to be recognised; R20.5 also decides what a line is (tokenizer lines); (R20.8) the sink gets the text as returned. (R20.10) = C10 R10.0, the overlap predicate (insertions inside an annotated line); (R20.11) = C03 R3.9, a widened deletion does not cross a line break; (R20.12) no text is rebuilt from terminator-less lines with a line break chosen by the rule; (R20.9) a fast path of has_ignore_comment that answers no before the lines are examined tests for a text every match of the pattern contains (mandatory factor of the regex AST).'


def check(prog: Program, tier: str) -> Result:
    res = Result(
        "C20",
        explanation=(
            "Decides the structural clauses of opt-out handling: (R20.1) in format_code the skip-file test on the "
            "unmodified input dominates every other statement and its branch returns the parameter itself; (R20.2) "
            "the whole-file skip pattern accepts the same comment grammar as the skip_file alternative of the "
            "per-line pattern (regex ASTs compared, separating string reported); (R20.3) every expression that "
            "rebuilds the module text from positions (s[:a] + x + s[b:] splices, character keep-mask joins, line-list "
            "edits) is reached only under `not has_ignore_comment(text, range)` for a range built from the same "
            "positions, or edits whitespace only; (R20.5) has_ignore_comment itself answers True exactly for a line "
            "that overlaps the range and matches the pattern, with character offsets advanced by whole lines. "
            "(R20.6) scheduled rewrites: the scheduler refuses a transaction when ANY range touches an annotated line (C10 R10.6, adopted); "
            "(R20.7) a skipped file is not rewritten: write only if the text changed (C03 R3.2, adopted). "
            "Token-blind whole-text stages (also rewriting annotated lines) are reported under C11 (R20.4)."),
        rule_text="instances = statements of format_code, regex pairs, splice/keep-mask/line-edit sites of the package, clauses of has_ignore_comment",
    )
    res.explanation += LATER_RULES
    res.trusted_base = ["CPython ast and re._parser", "sa/pathcond.py", "sa/textflow.py (text provenance)",
                        "anchors main.format_code, core.has_ignore_comment"]
    res.assumptions = ["a rewrite that goes through processing._schedule_rewrites is refused as a whole when any of its ranges touches an annotated line (C10 R10.6)"]
    tf = TextFlow(prog)
    _r20_1(prog, res)
    _r20_2(prog, res)
    _r20_5(prog, res)
    _r20_3(prog, res, tf)
    # mechanisms owned by other properties that the opt-out promises depend on
    from . import c03 as _c03, c10 as _c10
    c10_result = _c10.check(prog, tier)
    c03_result = _c03.check(prog, tier)
    res.adopt(c10_result, {"R10.6"}, "R20.6",
              "scheduled rewrites honour `# pyrefact: ignore` only because the scheduler refuses a transaction when ANY of its ranges touches an annotated line")
    res.adopt(c03_result, {"R3.2"}, "R20.7",
              "a `# pyrefact: skip_file` file stays byte-identical only if the file entry points write nothing when the text is unchanged (text-mode reading normalises line ends)")
    res.adopt(c10_result, {"R10.0"}, "R20.10",
              "has_ignore_comment decides with the overlap predicate which lines a range touches: an insertion (empty range) strictly inside an annotated line must count as touching it")
    res.adopt(c03_result, {"R3.9"}, "R20.11",
              "a deletion that is widened by a regex match behind it must not run over a line break: the line it would reach was never tested for an ignore comment")
    _r20_8(prog, res)
    _r20_12(prog, res)
    _r20_13(prog, res)
    res.floors.update({"R20.8": 1, "R20.1": 10, "R20.2": 1, "R20.3": 6, "R20.5": 3, "R20.6": 1, "R20.7": 1, "R20.10": 1, "R20.11": 1, "R20.13": 3})
    return res


def _skip_hook(prog: Program):
    def hook(e, w, an):
        st = skip_test_of(prog, e, an.fn)
        if st:
            return f"skipfile({an.term(st[1], w)})"
        return None
    return hook


class SkipPA(PathAnalysis):
    """The identified skip test is one atom skipfile(<text>), however it is written."""
    skip_node: Optional[ast.AST] = None
    text_name: str = ""

    def _formula(self, t, w):
        if self.skip_node is not None and t is self.skip_node:
            return Lit(f"skipfile({self.term(ast.Name(id=self.text_name, ctx=ast.Load()), w)})")
        return super()._formula(t, w)


def _r20_1(prog: Program, res: Result) -> None:
    fn = prog.func("main", "format_code")
    p = fn.posparams[0]
    goal_atom = f"skipfile({p}#0)"
    sem = find_skip_test(prog, fn)
    if sem is not None:
        test_stmt = sem[0]
        SkipPA.skip_node, SkipPA.text_name = test_stmt.test, p
        try:
            pa = SkipPA(prog, fn)
        finally:
            SkipPA.skip_node = None
        own = {n.id for n in ast.walk(test_stmt.test) if isinstance(n, ast.Name) and isinstance(n.ctx, ast.Store)}   # comprehension variables
        used = ({n.id for n in ast.walk(test_stmt.test) if isinstance(n, ast.Name)} - own) & (
            set(fn.all_params) | {n.id for n in ast.walk(fn.node) if isinstance(n, ast.Name) and isinstance(n.ctx, ast.Store)})
        ok = used == {p}
        res.decide(ok, "R20.1", fn.loc(test_stmt), fn.fq, short(test_stmt.test),
                   "tests the text parameter (test identified by interpreting it on probe files)" if ok else f"the skip test also depends on {sorted(used - {p})}")
    else:
        pa = PathAnalysis(prog, fn, term_hook=_skip_hook(prog))
        found_test = None
        for s in walk_body(fn.node.body):
            if isinstance(s, ast.If):
                for sub in ast.walk(s.test):
                    st = skip_test_of(prog, sub, fn)
                    if st:
                        found_test = (s, st)
                        break
            if found_test:
                break
        if not found_test:
            res.bad("R20.1", fn.loc(), fn.fq, "skip-file test", "format_code has no skip_file test on its input")
            return
        test_stmt, (pattern, tested, _) = found_test
        res.decide(isinstance(tested, ast.Name) and tested.id == p, "R20.1", fn.loc(test_stmt), fn.fq, short(test_stmt.test),
                   "tests the text parameter" if isinstance(tested, ast.Name) and tested.id == p else "the skip test does not examine the text parameter")
    # the skip branch returns the parameter itself, unmodified
    for w in pa.at_stmt.get(id(test_stmt), []):
        if w.token(p) != f"{p}#0":
            res.bad("R20.1", fn.loc(test_stmt), fn.fq, short(test_stmt.test), f"'{p}' was already modified when the skip test runs ({w.token(p)})")
    rets = [r for r in walk_body(test_stmt.body) if isinstance(r, ast.Return)]
    good = bool(rets) and isinstance(test_stmt.body[-1], ast.Return)
    for r in rets:
        ok = isinstance(r.value, ast.Name) and r.value.id == p and all(w.token(p) == f"{p}#0" for w in pa.worlds_at(r))
        res.decide(ok, "R20.1", fn.loc(r), fn.fq, norm(r),
                   "returns the unmodified parameter" if ok else "the skip branch does not return the input byte-for-byte")
    if not good:
        res.bad("R20.1", fn.loc(test_stmt), fn.fq, "skip branch", "the skip branch does not end in `return <input>`")
    # every other statement that touches the text is dominated by `not skipfile(p#0)`
    for s in walk_body(fn.node.body):
        if not isinstance(s, ast.stmt) or s is test_stmt or any(s is x for x in walk_body(test_stmt.body)):
            continue
        if isinstance(s, (ast.FunctionDef, ast.ClassDef)):
            continue
        if isinstance(s, ast.Expr) and isinstance(s.value, ast.Constant):
            continue
        touches = p in {n.id for n in ast.walk(s) if isinstance(n, ast.Name)} if not isinstance(s, (ast.If, ast.For, ast.While, ast.With, ast.Try)) \
            else p in {n.id for h in _header_exprs(s) for n in ast.walk(h) if isinstance(n, ast.Name)}
        if not touches:
            continue
        worlds = pa.at_stmt.get(id(s), [])
        ok = bool(worlds) and all(entails(w.facts, Lit(goal_atom, False)) for w in worlds)
        if not worlds:
            res.ok("R20.1", fn.loc(s), fn.fq, short(s, 80), "unreachable", trivial=True)
        else:
            res.decide(ok, "R20.1", fn.loc(s), fn.fq, short(s, 80),
                       "dominated by the failed skip-file test on the original input" if ok else
                       f"this statement uses the text but can run on a file with a skip_file comment (no fact `not {goal_atom}`)")


def _header_exprs(s: ast.stmt):
    if isinstance(s, (ast.If, ast.While)):
        return [s.test]
    if isinstance(s, ast.For):
        return [s.iter]
    if isinstance(s, ast.With):
        return [i.context_expr for i in s.items]
    return []


def _patterns(prog: Program, only_line: bool = False):
    fc = prog.func("main", "format_code")
    whole = None
    for s in ([] if only_line else walk_body(fc.node.body)):
        if isinstance(s, ast.If):
            for sub in ast.walk(s.test):
                st = skip_test_of(prog, sub, fc)
                if st:
                    whole = (st[0], fc.loc(s))
                    break
        if whole:
            break
    hic = prog.func("core", "has_ignore_comment")
    line = None
    for n in walk_own(hic.node):
        rs = regex_search_call(prog, n, hic)
        if rs:
            line = (rs[0], hic.loc(n))
    if line is None:
        for n in walk_own(hic.node):
            if isinstance(n, ast.Call) and prog.dotted(n.func) == "re.compile" and n.args:
                p = regex_literal(prog, n.args[0], hic)
                if p:
                    line = (p, hic.loc(n))
    if line is None:
        # through a helper that searches its argument: get_directive(line)
        for c in prog.calls_in(hic):
            r_ = prog.resolve_call(c.func, hic.mod, hic)
            if r_ and r_[0] == "fn":
                for x in ast.walk(r_[1].node):
                    rs = regex_search_call(prog, x, r_[1])
                    if rs and line is None:
                        line = (rs[0], r_[1].loc(x))
    return whole, line


def _r20_2(prog: Program, res: Result) -> None:
    fc = prog.func("main", "format_code")
    sem = find_skip_test(prog, fc)
    whole, line = _patterns(prog)
    if sem is None and (whole is None or line is None):
        res.undecided("R20.2", "pyrefact/main.py:0", "main.format_code", "skip-file grammar", "could not locate both patterns")
        return
    if sem is not None:
        # the test as it is COMPUTED (helpers interpreted): every probe file with a skip_file comment - wherever the comment
        # stands, whatever other directive precedes it - must be recognised
        test_stmt, verdicts, probes = sem
        missed = [t for t, lab in probes if lab and not verdicts[t]]
        extra = [t for t, lab in probes if not lab and verdicts[t]]
        res.decide(not missed, "R20.2", fc.loc(test_stmt), fc.fq, "skip-file test on probe files",
                   f"{sum(1 for _t, lab in probes if lab)} probe files with a skip_file comment (7 spellings x 7 placements, alone and next to an ignore comment) are all recognised"
                   + (f"; also skips {len(extra)} file(s) without one (harmless: skips more)" if extra else "") if not missed else
                   f"the file {missed[0]!r} carries a skip_file comment (has_ignore_comment takes it for one) but the whole-file test answers no: the file is formatted"
                   f" ({len(missed)} of {len(probes)} probe files)")
    if whole is None or line is None:
        return
    a = restrict_to(normalise_regex(whole[0]), "skip_file")
    b = restrict_to(normalise_regex(line[0]), "skip_file")
    if a == b:
        res.ok("R20.2", whole[1], "main.format_code", "skip-file grammar", f"whole-file pattern {whole[0]!r} equals the skip_file alternative of the per-line pattern {line[0]!r}")
        return
    sep = [s for s in PROBES if bool(re.search(whole[0], s)) != bool(re.search(line[0], s))]
    # a whole-file pattern that accepts MORE than the per-line pattern is harmless for the property (it skips more);
    # the defect is a comment the per-line grammar recognises as skip_file but the whole-file test misses
    missed = [s for s in sep if re.search(line[0], s) and not re.search(whole[0], s)]
    if missed or not sep:
        res.bad("R20.2", whole[1], "main.format_code", "skip-file grammar",
                f"whole-file pattern {whole[0]!r} and per-line pattern {line[0]!r} accept different skip_file comments"
                + (f"; e.g. {missed[0]!r} is a skip_file comment for has_ignore_comment but the file is formatted" if missed else ""))
    else:
        res.ok("R20.2", whole[1], "main.format_code", "skip-file grammar",
               f"whole-file pattern accepts a superset of the per-line skip_file grammar (extra: {sep[:2]})")


def _r20_8(prog: Program, res: Result) -> None:
    """What format_code returns for a skipped (or any) text is what must reach the sink.  `print(text)` appends a line break of
    its own: in --from-stdin mode a skip_file input is never echoed unchanged.  Instance: every statement that writes the result
    of format_code to a stream in the entry points; obligation: print(.., end="") or a write() call."""
    from ..defuse import bindings
    n = 0
    for fn in prog.funcs.values():
        if fn.mod.name != "main":
            continue
        results = set()
        for nm, defs in bindings(fn).items():
            for _s, v in defs:
                if isinstance(v, ast.Call):
                    r = prog.resolve_call(v.func, fn.mod, fn)
                    if r and r[0] == "fn" and r[1].key == ("main", "format_code"):
                        results.add(nm)
        for c in walk_own(fn.node):
            if isinstance(c, ast.Call) and isinstance(c.func, ast.Name) and c.func.id == "print" and c.args and isinstance(c.args[0], ast.Name) and c.args[0].id in results:
                n += 1
                end = next((k.value for k in c.keywords if k.arg == "end"), None)
                ok = isinstance(end, ast.Constant) and end.value == ""
                res.decide(ok, "R20.8", fn.loc(c), fn.fq, short(c, 60), "the text is written as returned" if ok else
                           "print() appends a line break to the text format_code returned: a skip_file input piped through --from-stdin comes out changed")
            if isinstance(c, ast.Call) and isinstance(c.func, ast.Attribute) and c.func.attr == "write" and c.args and isinstance(c.args[0], ast.Name) and c.args[0].id in results:
                n += 1
                res.ok("R20.8", fn.loc(c), fn.fq, short(c, 60), "the text is written as returned")
    if n == 0:
        raise AnalysisError("R20.8: no statement writing the result of format_code found")


# ------------------------------------------------------------------------------------------------ R20.12
def _r20_13(prog: Program, res: Result) -> None:
    """The layout stages of format_code (tab expansion, trailing blanks) edit the text of the whole module through a wrapper that calls
    the stage it is given on the text it is given and keeps the result when the syntax tree is kept.  A line that carries an ignore comment
    is "carried over verbatim" only if the wrapper (or the stage) looks for such lines and puts them back.  Instance: every call, in
    format_code, of a function that applies a callable PARAMETER to a text parameter; obligation: an ignore-comment test
    (`has_ignore_comment`, the opt-out pattern) is reachable from that wrapper."""
    from ..callgraph import CallGraph
    fc = prog.funcs.get(("main", "format_code"))
    if fc is None:
        raise AnalysisError("anchor main.format_code not found")
    cg = CallGraph(prog)
    n = 0
    for c in prog.calls_in(fc):
        r = prog.resolve_call(c.func, fc.mod, fc)
        if not (r and r[0] == "fn"):
            continue
        w = r[1]
        params = set(w.posparams)
        applies = [x for x in prog.calls_in(w) if isinstance(x.func, ast.Name) and x.func.id in params and x.args and isinstance(x.args[0], ast.Name) and x.args[0].id in params]
        if not applies:
            continue
        n += 1
        reach = cg.reachable([w.key])
        aware = any(k[1].split(".")[-1] == "has_ignore_comment" for k in reach) or "ignore" in norm(w.node).lower().replace("ignore_", "")
        res.decide(aware, "R20.13", fc.loc(c), fc.fq, f"{short(c, 90)} # a stage that edits the text of the whole module",
                   "the wrapper looks for lines with an ignore comment" if aware else
                   f"`{w.name}` applies the stage to every line and keeps the result when the syntax tree is kept: a line with `# pyrefact: ignore` has its tabs expanded and the "
                   "blanks behind the comment removed - it is not carried over verbatim")
    if n == 0:
        res.ok("R20.13", fc.loc(), fc.fq, "whole-text stages applied through a wrapper", "none", trivial=True)


def _r20_12(prog: Program, res: Result) -> None:
    """A text that is taken apart into lines WITHOUT their line breaks and put together again with a literal "\\n" has new line
    ends everywhere: in a file with \\r\\n every line is rewritten, the ones carrying `# pyrefact: ignore` included (and a
    skip-free file changes although no rule touched those lines).  Instance: `"\\n".join(X)` where X is made of the lines of a text
    stripped of their terminators (`.splitlines()`, `.rstrip("\\r\\n")` of kept-ends lines) in a function on the formatting path;
    there is no discharging idiom: the line breaks have to travel with the lines."""
    from ..defuse import bindings
    n = 0
    for fn in prog.funcs.values():
        for j in walk_own(fn.node):
            if not (isinstance(j, ast.Call) and isinstance(j.func, ast.Attribute) and j.func.attr == "join" and isinstance(j.func.value, ast.Constant)
                    and j.func.value.value in ("\n", "\r\n") and j.args):
                continue
            a = j.args[0]
            texts = [norm(a)] + [norm(v) for x in ast.walk(a) if isinstance(x, ast.Name) for _s, v in bindings(fn).get(x.id, []) if v is not None]
            from_lines = any(("splitlines()" in t) or ("split_lines(" in t and "rstrip(" in t) or (".split('\\n')" in t) for t in texts)
            returned = any(isinstance(r, ast.Return) and r.value is not None for r in walk_own(fn.node))
            if not (from_lines and returned):
                continue
            n += 1
            res.bad("R20.12", fn.loc(j), fn.fq, f"{short(j, 60)} # lines put together with a line break of the rule's choosing",
                    "the lines lost their own line breaks and get `\\n`: every line of a \\r\\n file is rewritten when this function changes anything - annotated lines "
                    "(`# pyrefact: ignore`) are not carried over verbatim")
    if n == 0:
        res.ok("R20.12", "pyrefact/", "package", "texts rebuilt from terminator-less lines", "none", trivial=True)


def _mandatory_factors(pattern: str) -> List[str]:
    """Maximal runs of literal characters that every match of the pattern contains (top-level sequence of the regex AST;
    groups without alternatives are entered; anything optional, repeated or branching ends a run)."""
    import re._parser as sre_parse
    runs: List[str] = []
    cur: List[str] = []

    def flush():
        if cur:
            runs.append("".join(cur))
            cur.clear()

    def walk(seq):
        for op, av in seq:
            name = str(op)
            if name == "LITERAL":
                cur.append(chr(av))
            elif name == "SUBPATTERN" and av[1] == 0 and av[2] == 0:
                walk(av[3])
            else:
                flush()
    try:
        walk(sre_parse.parse(pattern))
    except Exception:
        return []
    flush()
    return runs


def _r20_5(prog: Program, res: Result) -> None:
    fn = prog.func("core", "has_ignore_comment")
    if len(fn.posparams) < 2:
        raise AnalysisError("has_ignore_comment: expected (source, rng)")
    src, rng = fn.posparams[:2]
    _, line = _patterns(prog)
    if line:
        struct = repr(normalise_regex(line[0]))
        ok = "skip_file" in struct and "ignore" in struct
        res.decide(ok, "R20.5", line[1], fn.fq, "per-line pattern alternatives",
                   f"pattern {line[0]!r} recognises both `ignore` and `skip_file`" if ok else f"pattern {line[0]!r} lost an alternative")
        ok2 = all(re.search(line[0], s) for s in ("x = 1  # pyrefact: ignore", "x = 1  #pyrefact:ignore"))
        res.decide(ok2, "R20.5", line[1], fn.fq, "per-line pattern accepts the documented comment",
                   "`# pyrefact: ignore` matches" if ok2 else "`# pyrefact: ignore` no longer matches")
    # the line loop
    loops = [n for n in walk_own(fn.node) if isinstance(n, ast.For)]
    if not loops:
        res.undecided("R20.5", fn.loc(), fn.fq, "line loop", "no loop over the lines found")
        return
    loop = loops[0]
    it = loop.iter
    # the lines: every character of the text in exactly one line, terminators kept (so that offsets advance by len(line)),
    # and a LINE is what the tokenizer calls a line - str.splitlines also splits at form feed, \x1c-\x1e, \x85, \u2028, \u2029,
    # which can stand inside a string literal of the line: the comment at its end would then belong to the last piece only
    splitlines_keepends = isinstance(it, ast.Call) and isinstance(it.func, ast.Attribute) and it.func.attr == "splitlines" \
        and isinstance(it.func.value, ast.Name) and it.func.value.id == src \
        and (any((k.arg == "keepends" and isinstance(k.value, ast.Constant) and k.value.value is True) for k in it.keywords)
             or (it.args and isinstance(it.args[0], ast.Constant) and it.args[0].value is True))
    tokenizer_lines = False
    if isinstance(it, ast.Call) and it.args and isinstance(it.args[0], ast.Name) and it.args[0].id == src:
        r_ = prog.resolve_call(it.func, fn.mod, fn)
        if r_ and r_[0] == "fn":
            # a splitter that keeps the terminators and splits at \r\n, \r, \n only: re.findall of an alternation over [^\r\n]
            for x in ast.walk(r_[1].node):
                if isinstance(x, ast.Call) and prog.dotted(x.func) == "re.findall" and x.args:
                    ptn = regex_literal(prog, x.args[0], r_[1])
                    if ptn is not None and "\\n" in ptn and "[^\\r\\n]" in ptn and not any(t in ptn for t in ("\\f", "\\v", "\\x0c", "\\x0b", "\\x1c", "\\x85", "\\u2028", "\\s")):
                        # every character is in some match: the two alternatives are `line with terminator` | `last line without`
                        tokenizer_lines = ptn.count("|") >= 2 and ptn.endswith("+")
    advances = any(isinstance(c, ast.Call) and prog.dotted(c.func) == "len" and c.args and isinstance(c.args[0], ast.Name)
                   and isinstance(loop.target, ast.Name) and c.args[0].id == loop.target.id for c in ast.walk(loop))
    res.decide(bool((splitlines_keepends or tokenizer_lines) and advances), "R20.5", fn.loc(loop), fn.fq, "line offsets",
               "iterates every line of the text with its terminator and advances the offset by len(line)" if (splitlines_keepends or tokenizer_lines) and advances else
               "line offsets drift: the loop must iterate the lines of the text with their terminators and advance by len(line)")
    res.decide(tokenizer_lines, "R20.5", fn.loc(loop), fn.fq, "what a line is",
               "lines as the tokenizer splits them (\\r\\n, \\r, \\n only)" if tokenizer_lines else
               "str.splitlines also ends a 'line' at form feed, \\x1c-\\x1e, \\x85, \\u2028 and \\u2029, which can stand inside a string literal: the `# pyrefact: ignore` at the end of such a line "
               "is attributed to the last piece only, and a rewrite of the first part of the line is applied")
    pa = PathAnalysis(prog, fn)
    # helpers that answer whether their argument matches a pattern (one level): get_directive(line) is not None
    searching_helpers = set()
    for c in prog.calls_in(fn):
        r_ = prog.resolve_call(c.func, fn.mod, fn)
        if r_ and r_[0] == "fn" and r_[1].posparams:
            h = r_[1]
            if any(rs is not None and isinstance(rs[1], ast.Name) and rs[1].id == h.posparams[0]
                   for rs in (regex_search_call(prog, x, h) for x in ast.walk(h.node))):
                searching_helpers.add(h.name)
    trues = [r for r in walk_own(fn.node) if isinstance(r, ast.Return) and not (isinstance(r.value, ast.Constant) and not r.value.value)]
    for r in trues:
        worlds = pa.worlds_at(r)
        ok = bool(worlds)
        for w in worlds:
            has_overlap = any(f[0] == "lit" and f[2] and ((" & " in f[1]) or ".overlaps(" in f[1]) and w.token(rng) in f[1] for f in w.facts)
            def is_match_fact(f) -> bool:
                if f[0] != "lit" or not isinstance(loop.target, ast.Name) or w.token(loop.target.id) not in f[1]:
                    return False
                txt = f[1]
                direct = ".search(" in txt or "re#0." in txt or ".match(" in txt or ".findall(" in txt
                via_helper = any(re.search(r"\b" + re.escape(h) + r"(#\w+)?\(", txt) for h in searching_helpers)
                if not (direct or via_helper):
                    return False
                # `<match> is None` is the negated test
                want = not (txt.startswith("is(") and txt.rstrip(")").endswith("None"))
                return f[2] == want
            has_match = any(is_match_fact(f) for f in w.facts)
            ok = ok and has_overlap and has_match
        res.decide(ok, "R20.5", fn.loc(r), fn.fq, norm(r),
                   "True only for a line that overlaps the range and matches the pattern" if ok else
                   "a True answer is not conditioned on both (line overlaps range) and (line matches the ignore pattern)")
    if not trues:
        res.bad("R20.5", fn.loc(), fn.fq, "no True answer", "has_ignore_comment can never report an ignore comment")
    # R20.9: an answer "no" given BEFORE the lines are examined (a fast path) needs a test that no line can match: a substring
    # test for a text that every match of the pattern contains (a mandatory factor, read off the regex AST), or a search
    # of the whole text with the pattern itself
    before = [r for r in walk_own(fn.node) if isinstance(r, ast.Return) and r not in trues and r.lineno < loop.lineno]
    for r in before:
        worlds = pa.worlds_at(r)
        ok, why = bool(worlds) and line is not None, "unreachable" if not worlds else "no per-line pattern found"
        factors = _mandatory_factors(line[0]) if line else []
        for w in worlds if line else []:
            justified = False
            for f in w.facts:
                if f[0] != "lit":
                    continue
                txt = plain(f[1])
                m_ = re.fullmatch(r"in\((?P<lit>'(?:[^'\\]|\\.)*'|\"(?:[^\"\\]|\\.)*\"), *" + re.escape(src) + r"\)", txt)
                if m_ and not f[2]:
                    lit = ast.literal_eval(m_.group("lit"))
                    if lit and any(lit in run for run in factors):
                        justified, why = True, f"{lit!r} is part of every match of the pattern"
                    else:
                        why = (f"the fast path answers 'no ignore comment' for every text without {lit!r}, but the pattern {line[0]!r} also matches comments that do not contain it "
                               f"(what every match contains: {factors}): `#pyrefact: ignore`, `# pyrefact : ignore` are not honoured in a file that has no other spelling")
                if not f[2] and (".search(" in txt or ".findall(" in txt) and txt.rstrip(")").endswith(src) and "line" not in txt:
                    justified, why = True, "the whole text was searched with a pattern"
            ok = ok and justified
        res.decide(ok, "R20.9", fn.loc(r), fn.fq, f"{norm(r)} # answer before the lines are examined", why)
    if not before:
        res.ok("R20.9", fn.loc(), fn.fq, "answers before the lines are examined", "none", trivial=True)
    # the loop may not stop early on a non-matching line
    early = [n for n in walk_body(loop.body) if isinstance(n, (ast.Break,)) or (isinstance(n, ast.Return) and n not in trues)]
    res.decide(not early, "R20.5", fn.loc(loop), fn.fq, "all lines examined",
               "no early exit without a match" if not early else f"line {early[0].lineno}: the loop is left before all overlapping lines were examined")


def _ignore_guard_names(w, text_tok: str) -> List[set]:
    """For each fact `not has_ignore_comment(text, R)` of world w: the variable tokens occurring in R."""
    out = []
    for f in w.facts:
        if f[0] == "lit" and not f[2] and "has_ignore_comment(" in f[1] and text_tok in f[1]:
            inner = f[1][f[1].index("has_ignore_comment(") + len("has_ignore_comment("):]
            toks = set(re.findall(r"[A-Za-z_]\w*#\w+", inner))
            out.append(toks - {text_tok})
    return out


def _r20_3(prog: Program, res: Result, tf: TextFlow) -> None:
    n_sites = 0
    for fn in prog.funcs.values():
        kinds = tf.kinds(fn)
        if not any(k in (WHOLE, LINES, CHARS) for k in kinds.values()):
            continue
        pa = None
        # ---------------- A: splices
        for n in walk_own(fn.node):
            if isinstance(n, ast.BinOp) and isinstance(n.op, ast.Add) and not (
                    isinstance(parent(n), ast.BinOp) and isinstance(parent(n).op, ast.Add)) and tf.is_splice(n, fn, kinds):
                n_sites += 1
                head, mid, tail = tf.splice_parts(n)
                pa = pa or PathAnalysis(prog, fn)
                _splice_obligation(prog, res, fn, pa, n, head, tail)
        # ---------------- B: keep-mask joins / C: line edits
        for n in walk_own(fn.node):
            if isinstance(n, ast.Call) and isinstance(n.func, ast.Attribute) and n.func.attr == "join" and n.args \
                    and isinstance(n.args[0], ast.Name):
                k = kinds.get(n.args[0].id)
                name = n.args[0].id
                if k == CHARS:
                    conditional = _conditional_appends(fn, name)
                    if conditional:
                        n_sites += 1
                        pa = pa or PathAnalysis(prog, fn)
                        _mask_obligation(prog, res, fn, pa, n, name)
                elif k == LINES and _flows_to_text_result(fn, n):
                    edits = _line_removals(fn, name, before=n.lineno)
                    for e in edits:
                        n_sites += 1
                        pa = pa or PathAnalysis(prog, fn)
                        _generic_guard(prog, res, fn, pa, e, f"line-list edit {short(e, 60)} joined back into the text", set())
    res.analysed["text_rebuild_sites"] = n_sites


def _flows_to_text_result(fn: Func, join: ast.AST) -> bool:
    """The joined text is the function's (first) result, not an auxiliary value."""
    p = parent(join)
    while isinstance(p, ast.BinOp):
        join, p = p, parent(p)
    rets = [r for r in walk_own(fn.node) if isinstance(r, ast.Return) and r.value is not None]

    def first(v):
        return v.elts[0] if isinstance(v, ast.Tuple) and v.elts else v
    if isinstance(p, ast.Return):
        return first(p.value) is join or p.value is join
    if isinstance(p, ast.Tuple) and isinstance(parent(p), ast.Return):
        return p.elts[0] is join
    if isinstance(p, ast.Assign):
        names = {t.id for t in p.targets if isinstance(t, ast.Name)}
        return any(isinstance(first(r.value), ast.Name) and first(r.value).id in names for r in rets)
    return False


def _conditional_appends(fn: Func, name: str) -> bool:
    for n in walk_own(fn.node):
        if isinstance(n, ast.Call) and isinstance(n.func, ast.Attribute) and n.func.attr in ("append", "extend") \
                and isinstance(n.func.value, ast.Name) and n.func.value.id == name:
            a = parent(n)
            while a is not None and a is not fn.node:
                if isinstance(a, ast.If):
                    return True
                a = parent(a)
    return False


def _line_removals(fn: Func, name: str, before: int) -> List[ast.AST]:
    out = []
    for n in walk_own(fn.node):
        if getattr(n, "lineno", 10 ** 9) > before:
            continue
        if isinstance(n, ast.Delete):
            for t in n.targets:
                if isinstance(t, ast.Subscript) and isinstance(t.value, ast.Name) and t.value.id == name:
                    out.append(n)
        elif isinstance(n, ast.Call) and isinstance(n.func, ast.Attribute) and n.func.attr in ("pop", "remove", "clear") \
                and isinstance(n.func.value, ast.Name) and n.func.value.id == name:
            out.append(n)
        elif isinstance(n, ast.Assign):
            for t in n.targets:
                if isinstance(t, ast.Subscript) and isinstance(t.value, ast.Name) and t.value.id == name:
                    out.append(n)
                if isinstance(t, ast.Name) and t.id == name and isinstance(n.value, (ast.ListComp,)) and n.value.generators[0].ifs \
                        and isinstance(n.value.generators[0].iter, ast.Name) and n.value.generators[0].iter.id == name:
                    out.append(n)
    return out


def _bound_names(e: Optional[ast.AST]) -> set:
    return names_in(e) if e is not None else set()


def _splice_obligation(prog, res, fn, pa, node, head, tail) -> None:
    text = head.value
    bounds = _bound_names(head.slice.upper) | _bound_names(tail.slice.lower)
    pure_insert = norm(head.slice.upper) == norm(tail.slice.lower)
    if pure_insert:
        res.ok("R20.3", fn.loc(node), fn.fq, short(node, 90), "pure insertion: both slices share one bound, every old character is kept", trivial=True)
        return
    _generic_guard(prog, res, fn, pa, node, short(node, 90), bounds, text)


def _generic_guard(prog, res, fn, pa, node, construct, bounds: set, text: Optional[ast.AST] = None) -> None:
    worlds = pa.worlds_at(node)
    if not worlds:
        res.ok("R20.3", fn.loc(node), fn.fq, construct, "unreachable", trivial=True)
        return
    ok = True
    why = ""
    for w in worlds:
        text_tok = w.token(text.id) if isinstance(text, ast.Name) else ""
        guards = _ignore_guard_names(w, text_tok) if text_tok else [g for f in [0] for g in _any_ignore_guard(w)]
        bound_toks = {w.token(b) for b in bounds}
        good = any(bound_toks and (bound_toks <= g or _derived_from(fn, bounds, g)) for g in guards) if bounds else bool(guards)
        if not good:
            ok = False
            why = ("no `not has_ignore_comment(text, range)` fact on a path to this site" if not guards else
                   f"ignore-comment test found, but on a range ({sorted(guards[0])}) not built from the spliced positions {sorted(bound_toks)}")
    if ok:
        res.ok("R20.3", fn.loc(node), fn.fq, construct, "reached only after has_ignore_comment(text, range of these positions) was false")
        return
    # idiom (i): whitespace-only edits
    if _whitespace_only(prog, fn, pa, node, bounds):
        res.ok("R20.3", fn.loc(node), fn.fq, construct, "the replaced slice is tested to consist of whitespace only (no comment can be inside)")
        return
    # idiom (ii): all or nothing - `if any(has_ignore_comment(text, Range(a, b)) for a, b, .. in C): return text` before a loop that
    # splices the elements of the same C (through sorted / set / reversed / list), with the spliced positions as loop targets
    if _all_or_nothing(prog, fn, pa, node, bounds, text):
        res.ok("R20.3", fn.loc(node), fn.fq, construct, "all or nothing: the text is handed back untouched when ANY of the collected ranges is on an annotated line")
        return
    # idiom (iii): `if not <flag> and has_ignore_comment(text, range): return text` - the test is switched off by a parameter
    # that only the applier of SCHEDULED rewrites sets: the scheduler has tested every range of the transaction against the
    # text the ranges were computed for (C10 R10.6, adopted as R20.6), and a second test on the partly rewritten text would
    # refuse single rewrites of an accepted transaction
    flag = _scheduled_flag(prog, fn, pa, worlds, bounds, text)
    if flag:
        res.ok("R20.3", fn.loc(node), fn.fq, construct, f"tested here unless `{flag}` is set, and `{flag}` is set only where rewrites accepted by the scheduler are applied")
        return
    res.bad("R20.3", fn.loc(node), fn.fq, construct, why + "; an annotated line can be rewritten or deleted here")


def _scheduled_flag(prog, fn, pa, worlds, bounds: set, text) -> Optional[str]:
    """Name of a parameter P of fn (default False) such that every world at the site holds `P or not has_ignore_comment(text, R)`
    with R built from the spliced positions, and every call that passes P true applies rewrites that come out of the
    scheduler (the caller iterates a parameter to which all ITS callers pass the result of processing._schedule_rewrites)."""
    args = fn.node.args
    defaults = dict(zip([a.arg for a in args.kwonlyargs], args.kw_defaults))
    pos = args.posonlyargs + args.args
    defaults.update(zip([a.arg for a in pos[len(pos) - len(args.defaults):]], args.defaults))
    for p_name, d in defaults.items():
        if not (isinstance(d, ast.Constant) and d.value is False):
            continue
        ok = True
        for w in worlds:
            p_tok = w.token(p_name)
            text_tok = w.token(text.id) if isinstance(text, ast.Name) else ""
            bound_toks = {w.token(b) for b in bounds}
            good = False
            # the nested spelling `if not flag: if has_ignore_comment(..): return text` forks the worlds instead: one in which the flag
            # is set, one in which the test came back negative
            for f in w.facts:
                if f[0] == "lit" and f[2] and plain(f[1]) == p_name and p_tok in f[1]:
                    good = True
                if f[0] == "lit" and not f[2] and "has_ignore_comment(" in f[1] and (not text_tok or text_tok in f[1]):
                    toks0 = set(re.findall(r"[A-Za-z_]\w*#\w+", f[1][f[1].index("has_ignore_comment("):])) - {text_tok}
                    if not bounds or bound_toks <= toks0 or _derived_from(fn, bounds, toks0):
                        good = True
            for f in w.facts:
                if f[0] != "or":
                    continue
                has_flag = any(x[0] == "lit" and x[2] and plain(x[1]) == p_name and p_tok in x[1] for x in f[1])
                for x in f[1]:
                    if x[0] == "lit" and not x[2] and "has_ignore_comment(" in x[1] and (not text_tok or text_tok in x[1]):
                        toks = set(re.findall(r"[A-Za-z_]\w*#\w+", x[1][x[1].index("has_ignore_comment("):])) - {text_tok}
                        if has_flag and (not bounds or bound_toks <= toks or _derived_from(fn, bounds, toks)):
                            good = True
            ok = ok and good
        if not ok:
            continue
        # who sets the flag
        setters = []
        for g in prog.funcs.values():
            for c in prog.calls_in(g):
                r = prog.resolve_call(c.func, g.mod, g)
                if r and r[0] == "fn" and r[1].key == fn.key:
                    v = next((k.value for k in c.keywords if k.arg == p_name), None)
                    if v is not None and not (isinstance(v, ast.Constant) and v.value is False):
                        setters.append((g, c))
        if not setters:
            return p_name
        fine = True
        for g, c in setters:
            # the rewrite handed over is drawn from a parameter of g ...
            loop = parent(c)
            while loop is not None and not isinstance(loop, ast.For):
                loop = parent(loop)
            src = loop.iter if loop is not None else None
            if not (isinstance(src, ast.Name) and src.id in g.all_params):
                fine = False
                continue
            idx = g.posparams.index(src.id) if src.id in g.posparams else None
            # ... to which every caller of g passes what processing._schedule_rewrites returned
            callers = 0
            for h in prog.funcs.values():
                for c2 in prog.calls_in(h):
                    r2 = prog.resolve_call(c2.func, h.mod, h)
                    if not (r2 and r2[0] == "fn" and r2[1].key == g.key):
                        continue
                    callers += 1
                    a = call_arg(c2, idx if idx is not None else 99, src.id)
                    vals = [a] if a is not None else []
                    if isinstance(a, ast.Name):
                        vals = [v for _s, v in assignments(h, a.id) if v is not None]
                    if not vals or not all(isinstance(v, ast.Call) and (prog.dotted(v.func) or "").split(".")[-1] == "_schedule_rewrites" for v in vals):
                        fine = False
            if callers == 0:
                fine = False
        if fine:
            return p_name
    return None


def _all_or_nothing(prog, fn, pa, node, bounds: set, text) -> bool:
    if not isinstance(text, ast.Name) or not bounds:
        return False
    # the loop that binds the spliced positions
    lp = parent(node)
    while lp is not None and not (isinstance(lp, ast.For) and bounds <= {x.id for x in ast.walk(lp.target) if isinstance(x, ast.Name)}):
        lp = parent(lp)
    if lp is None or not isinstance(lp.target, ast.Tuple):
        return False
    it = lp.iter
    while isinstance(it, ast.Call) and isinstance(it.func, ast.Name) and it.func.id in ("sorted", "set", "reversed", "list", "tuple") and it.args:
        it = it.args[0]
    if not isinstance(it, ast.Name):
        return False
    coll = it.id
    pos_index = {x.id: i for i, x in enumerate(lp.target.elts) if isinstance(x, ast.Name)}
    for st in ast.walk(fn.node):
        if not (isinstance(st, ast.If) and st.body and isinstance(st.body[-1], ast.Return) and isinstance(st.body[-1].value, ast.Name)
                and st.body[-1].value.id == text.id and st.lineno < lp.lineno):
            continue
        t = st.test
        if not (isinstance(t, ast.Call) and isinstance(t.func, ast.Name) and t.func.id == "any" and len(t.args) == 1 and isinstance(t.args[0], ast.GeneratorExp)
                and len(t.args[0].generators) == 1):
            continue
        g = t.args[0].generators[0]
        if not (isinstance(g.iter, ast.Name) and g.iter.id == coll and isinstance(g.target, ast.Tuple) and not g.ifs):
            continue
        elt = t.args[0].elt
        if not (isinstance(elt, ast.Call) and (prog.dotted(elt.func) or "").split(".")[-1] == "has_ignore_comment" and len(elt.args) == 2
                and isinstance(elt.args[0], ast.Name) and elt.args[0].id == text.id):
            continue
        rng = elt.args[1]
        if not (isinstance(rng, ast.Call) and (prog.dotted(rng.func) or "").split(".")[-1] == "Range" and len(rng.args) == 2 and all(isinstance(a, ast.Name) for a in rng.args)):
            continue
        gidx = {x.id: i for i, x in enumerate(g.target.elts) if isinstance(x, ast.Name)}
        # the same tuple components are the range of the test and the positions of the splice
        test_components = {gidx.get(a.id) for a in rng.args}
        splice_components = {pos_index.get(b) for b in bounds}
        # the text is not modified between the test and the loop, and the collection is not refilled
        worlds_if = pa.worlds_at(st)
        worlds_lp = pa.worlds_at(lp)
        same_text = bool(worlds_if) and bool(worlds_lp) and {w.token(text.id) for w in worlds_if} == {w.token(text.id) for w in worlds_lp}
        if None not in test_components and test_components == splice_components and same_text:
            return True
    return False


def _any_ignore_guard(w):
    for f in w.facts:
        if f[0] == "lit" and not f[2] and "has_ignore_comment(" in f[1]:
            yield set(re.findall(r"[A-Za-z_]\w*#\w+", f[1]))


def _derived_from(fn: Func, bounds: set, guard_toks: set) -> bool:
    """bounds (names) are attributes of / unpacked from a single variable that the guard mentions (old.start, old.end)."""
    guard_names = {t.split("#")[0] for t in guard_toks}
    for g in list(guard_names):  # a guard on a local bound once to Range(a, b) speaks about a and b
        defs = [v for _, v in assignments(fn, g) if v is not None]
        if len(defs) == 1:
            guard_names |= names_in(defs[0])
    for b in bounds:
        if b in guard_names:
            continue
        return False
    return True


def _mask_obligation(prog, res, fn, pa, node, name) -> None:
    _generic_guard(prog, res, fn, pa, node, f"{short(node, 60)} # character keep-mask over the text", set())


def _whitespace_only(prog, fn, pa, node, bounds: set) -> bool:
    """The spliced range comes from a dict whose keys Range(a, b) are inserted only when set(text[a:b]) - set(ws) is empty."""
    # find range variable r: bounds like r.start / r.end
    if len(bounds) != 1:
        return False
    r = next(iter(bounds))
    # r iterates the keys of dict D
    loop = None
    a = parent(node)
    while a is not None and a is not fn.node:
        if isinstance(a, ast.For) and isinstance(a.target, ast.Name) and a.target.id == r:
            loop = a
            break
        a = parent(a)
    if loop is None:
        return False
    it = loop.iter
    while isinstance(it, ast.Call) and prog.dotted(it.func) in ("sorted", "reversed", "list") and it.args:
        it = it.args[0]
    if not isinstance(it, ast.Name):
        return False
    D = it.id
    inserts = [n for n in walk_own(fn.node) if isinstance(n, ast.Assign) and any(
        isinstance(t, ast.Subscript) and isinstance(t.value, ast.Name) and t.value.id == D for t in n.targets)]
    if not inserts:
        return False
    for ins in inserts:
        key = next(t.slice for t in ins.targets if isinstance(t, ast.Subscript))
        if isinstance(key, ast.Name):
            defs = [d for d in assignments(fn, key.id) if d[1] is not None and d[0].lineno <= ins.lineno]
            if len(defs) != 1:
                return False
            key = defs[0][1]
        if not (isinstance(key, ast.Call) and prog.dotted(key.func) in ("core.Range", "Range") and len(key.args) == 2):
            return False
        ka, kb = norm(key.args[0]), norm(key.args[1])
        good = False
        for w in pa.worlds_at(ins):
            good = False
            for f in w.facts:
                # not (set(S) - set('\n '))
                if f[0] == "lit" and not f[2]:
                    m = re.fullmatch(r"set#0\((\w+)#\w+\) - set#0\((.+)\)", f[1])
                    if m:
                        try:
                            ws = ast.literal_eval(m.group(2))
                        except Exception:
                            continue
                        if not isinstance(ws, str) or ws.strip():
                            continue
                        sdefs = assignments(fn, m.group(1))
                        if len(sdefs) == 1 and isinstance(sdefs[0][1], ast.Subscript) and isinstance(sdefs[0][1].slice, ast.Slice):
                            sl = sdefs[0][1].slice
                            if sl.lower is not None and sl.upper is not None and norm(sl.lower) == ka and norm(sl.upper) == kb:
                                good = True
            if not good:
                return False
        if not good:
            return False
    return True


# ---------------------------------------------------------------------------------------------- self-test
from ..selftest import Variant  # noqa: E402

VARIANTS = [
    Variant("layout-wrapper-puts-annotated-lines-back", "REPAIRED", "main",
            "    new_source = stage(source)\n    if core.keeps_syntax_tree(source, new_source):\n        return new_source\n",
            "    new_source = stage(source)\n    old_lines, new_lines = source.splitlines(keepends=True), new_source.splitlines(keepends=True)\n    if len(old_lines) == len(new_lines):\n        new_source = \"\".join(old if core.has_ignore_comment(source, old) else new for old, new in zip(old_lines, new_lines))\n    if core.keeps_syntax_tree(source, new_source):\n        return new_source\n", "R20.13"),
    Variant("fourth-whole-text-stage", "FIRE", "main",
            "    source = _apply_layout_stage(rmspace.format_str, source)\n    source = fixes.fix_too_many_blank_lines(source)\n", "    source = _apply_layout_stage(rmspace.format_str, source)\n    source = _apply_layout_stage(str.rstrip, source)\n    source = fixes.fix_too_many_blank_lines(source)\n", "R20.13"),
    Variant("lines-joined-with-a-line-break-of-their-own-choosing", "FIRE", "fixes", "    lines = list(core.split_lines(source))\n", "    lines = [line.rstrip(\"\\r\\n\") for line in core.split_lines(source)]\n", "R20.12",
            extra=[("fixes", "    new_source = \"\".join(lines)\n", "    new_source = \"\\n\".join(lines) + \"\\n\"\n")]),
    Variant("direct-editor-claims-its-rewrites-are-scheduled", "FIRE", "processing", "        new_source = _do_rewrite(new_source, rewrite)\n", "        new_source = _do_rewrite(new_source, rewrite, scheduled=True)\n", "R20.3"),
    Variant("fast-path-tests-one-spelling-of-the-comment", "FIRE", "core", '    pattern = re.compile(r"#\\s*pyrefact\\s*:\\s*(skip_file|ignore)")\n', '    if "# pyrefact:" not in source:\n        return False\n' + '    pattern = re.compile(r"#\\s*pyrefact\\s*:\\s*(skip_file|ignore)")\n', "R20.9"),
    Variant("fast-path-tests-a-word-every-comment-contains", "SILENT", "core", '    pattern = re.compile(r"#\\s*pyrefact\\s*:\\s*(skip_file|ignore)")\n', '    if "pyrefact" not in source:\n        return False\n' + '    pattern = re.compile(r"#\\s*pyrefact\\s*:\\s*(skip_file|ignore)")\n'),
    Variant("fast-path-tests-the-colon-with-the-word", "FIRE", "core", '    pattern = re.compile(r"#\\s*pyrefact\\s*:\\s*(skip_file|ignore)")\n', '    if "pyrefact:" not in source:\n        return False\n' + '    pattern = re.compile(r"#\\s*pyrefact\\s*:\\s*(skip_file|ignore)")\n', "R20.9"),
    Variant("remove-nodes-forgets-ignore-comments", "FIRE", "processing",
            "    if any(core.has_ignore_comment(source, core.get_charnos(node, source)) for node in nodes):\n        return source  # Code on a line with a pyrefact: ignore comment stays\n\n", "", "R20.3"),
    Variant("renaming-splices-into-annotated-lines", "FIRE", "fixes",
            "    if any(core.has_ignore_comment(source, core.Range(start, end)) for start, end, _ in replacements):\n        return source  # All or nothing: a name is not renamed in some places only\n\n", "", "R20.3"),
    Variant("renaming-skips-annotated-places-one-by-one", "SILENT", "fixes",
            "    for start, end, substitute in sorted(set(replacements), reverse=True):\n        logger.debug(\"Replacing {old} with {new}\", old=source[start:end], new=substitute)\n",
            "    for start, end, substitute in sorted(set(replacements), reverse=True):\n        if core.has_ignore_comment(source, core.Range(start, end)):\n            continue\n        logger.debug(\"Replacing {old} with {new}\", old=source[start:end], new=substitute)\n"),
    Variant("stdin-result-printed-with-a-line-break", "FIRE", "main", "        print(source, end=\"\")  # The text as it is, print would add a line break", "        print(source)", "R20.8"),
    Variant("stdin-result-written-to-stdout", "SILENT", "main", "        print(source, end=\"\")  # The text as it is, print would add a line break", "        sys.stdout.write(source)"),
    Variant("ignore-lines-by-str-splitlines", "FIRE", "core", "    for line in split_lines(source):  # A form feed in a string does not end the line, or its comment", "    for line in source.splitlines(keepends=True):", "R20.5"),
    Variant("directive-lookup-in-a-helper", "SILENT", "core", 'def has_ignore_comment(source: str, rng: Range) -> bool:\n    pattern = re.compile(r"#\\s*pyrefact\\s*:\\s*(skip_file|ignore)")\n', '_DIRECTIVE = re.compile(r"#\\s*pyrefact\\s*:\\s*(skip_file|ignore)")\n\n\ndef get_directive(text: str):\n    found = _DIRECTIVE.search(text)\n    if found is None:\n        return None\n\n    return found.group(1)\n\n\ndef has_ignore_comment(source: str, rng: Range) -> bool:\n', extra=[("core", '        if rng & Range(line_start, line_end) and pattern.search(line):', '        if rng & Range(line_start, line_end) and get_directive(line) is not None:')]),
    Variant("skip-test-per-line-through-helper", "SILENT", "main", "    if re.search(r\"#\\s*pyrefact\\s*:\\s*skip_file\", source):",
            "    if any(_is_skip_line(line) for line in source.splitlines()):",
            extra=[("main", "@_hand_back_code_that_is_too_deep\ndef format_code(", "_SKIP = re.compile(r\"#\\s*pyrefact\\s*:\\s*skip_file\")\n\n\ndef _is_skip_line(line: str) -> bool:\n    found = _SKIP.search(line)\n    return found is not None\n\n\n@_hand_back_code_that_is_too_deep\ndef format_code(")]),
    Variant("skip-test-reads-first-directive-only", "FIRE", "core", 'def has_ignore_comment(source: str, rng: Range) -> bool:\n    pattern = re.compile(r"#\\s*pyrefact\\s*:\\s*(skip_file|ignore)")\n', '_DIRECTIVE = re.compile(r"#\\s*pyrefact\\s*:\\s*(skip_file|ignore)")\n\n\ndef get_directive(text: str):\n    found = _DIRECTIVE.search(text)\n    if found is None:\n        return None\n\n    return found.group(1)\n\n\ndef has_ignore_comment(source: str, rng: Range) -> bool:\n', "R20.2", extra=[("core", '        if rng & Range(line_start, line_end) and pattern.search(line):', '        if rng & Range(line_start, line_end) and get_directive(line) is not None:'),
            ("main", "    if re.search(r\"#\\s*pyrefact\\s*:\\s*skip_file\", source):", "    if core.get_directive(source) == \"skip_file\":")]),
    Variant("expandtabs-before-skip-test", "FIRE", "main",
            "    if re.search(r\"#\\s*pyrefact\\s*:\\s*skip_file\", source):\n        return source\n\n    unformatted_source = source\n    source = _apply_layout_stage(functools.partial(str.expandtabs, tabsize=4), source)\n",
            "    unformatted_source = source\n    source = _apply_layout_stage(functools.partial(str.expandtabs, tabsize=4), source)\n    if re.search(r\"#\\s*pyrefact\\s*:\\s*skip_file\", source):\n        return source\n\n", "R20.1"),
    Variant("skip-returns-stripped", "FIRE", "main",
            "    if re.search(r\"#\\s*pyrefact\\s*:\\s*skip_file\", source):\n        return source\n", "    if re.search(r\"#\\s*pyrefact\\s*:\\s*skip_file\", source):\n        return source.strip()\n", "R20.1"),
    Variant("skip-test-removed", "FIRE", "main",
            "    if re.search(r\"#\\s*pyrefact\\s*:\\s*skip_file\", source):\n        return source\n", "", "R20.1"),
    Variant("node-path-guard-deleted", "FIRE", "processing",
            "    if not scheduled and core.has_ignore_comment(source, core.Range(start, end)):\n        return source\n", "", "R20.3"),
    Variant("range-path-guard-deleted", "FIRE", "processing",
            "        if not scheduled and core.has_ignore_comment(source, old):\n            return source\n", "", "R20.3"),
    Variant("guard-on-wrong-range", "FIRE", "processing",
            "    if not scheduled and core.has_ignore_comment(source, core.Range(start, end)):\n        return source\n",
            "    if not scheduled and core.has_ignore_comment(source, core.Range(0, 0)):\n        return source\n", "R20.3"),
    Variant("ignore-pattern-loses-ignore", "FIRE", "core",
            "r\"#\\s*pyrefact\\s*:\\s*(skip_file|ignore)\"", "r\"#\\s*pyrefact\\s*:\\s*(skip_file)\"", "R20.5"),
    Variant("line-offsets-without-terminators", "FIRE", "core",
            "    for line in split_lines(source):  # A form feed in a string does not end the line, or its comment\n        line_start = character_count",
            "    for line in source.splitlines():\n        line_start = character_count", "R20.5"),
    Variant("ignore-answer-unconditional-on-overlap", "FIRE", "core",
            "        if rng & Range(line_start, line_end) and pattern.search(line):", "        if pattern.search(line):", "R20.5"),
    Variant("new-unguarded-splice", "FIRE", "fixes",
            "def _get_variable_re_pattern(variable) -> str:",
            "def _chop(source: str, node: ast.AST) -> str:\n    start, end = core.get_charnos(node, source)\n    return source[:start] + source[end:]\n\n\n@processing.fix\ndef _chop_rule(source: str) -> str:\n    source = _chop(source, core.parse(source).body[0])\n    yield None, None\n\n\ndef _get_variable_re_pattern(variable) -> str:",
            "R20.3"),
    Variant("skip-test-in-helper", "SILENT", "main",
            "    if re.search(r\"#\\s*pyrefact\\s*:\\s*skip_file\", source):\n        return source\n",
            "    if _is_skipped(source):\n        return source\n",
            extra=[("main", "def _parse_args(args: Sequence[str]) -> argparse.Namespace:",
                    "def _is_skipped(source: str) -> bool:\n    return bool(re.search(r\"#\\s*pyrefact\\s*:\\s*skip_file\", source))\n\n\ndef _parse_args(args: Sequence[str]) -> argparse.Namespace:")]),
    Variant("skip-pattern-precompiled", "SILENT", "main",
            "    if re.search(r\"#\\s*pyrefact\\s*:\\s*skip_file\", source):\n        return source\n",
            "    if _SKIP.search(source):\n        return source\n",
            extra=[("main", "MAX_MODULE_PASSES = 5\n", "MAX_MODULE_PASSES = 5\n_SKIP = re.compile(r\"#\\s*pyrefact\\s*:\\s*skip_file\")\n")]),
    Variant("guard-via-local-range", "SILENT", "processing",
            "    if not scheduled and core.has_ignore_comment(source, core.Range(start, end)):\n        return source\n",
            "    node_range = core.Range(start, end)\n    if not scheduled and core.has_ignore_comment(source, node_range):\n        return source\n"),
]

META = {
    "design_ref": "DESIGN.md section 3, C20",
    "technique": "path-condition dominance (skip-file test, ignore-comment guards on text splices) + regex-AST sibling cross-check + text-provenance dataflow; adopted scheduler (C10 R10.6) and write-guard (C03 R3.2) clauses; mandatory-factor analysis of substring pre-filters (regex AST); scheduled-flag idiom traced to the scheduler; adopted overlap predicate (C10 R10.0) and widened-deletion rule (C03 R3.9); call-graph reachability of an ignore-comment test from the wrappers of whole-text stages",
    "level_text": ("Decides on the current source that the skip-file test dominates all processing of the unmodified "
                   "input and returns it unchanged, that the two opt-out grammars agree, that has_ignore_comment has the "
                   "shape 'True iff some line overlapping the range matches', and that every position-based rebuild of "
                   "the module text is guarded by an ignore-comment test on the same positions (or edits whitespace "
                   "only). The two direct editors that were known findings (remove_nodes, _fix_variable_names) were repaired as all-or-nothing refusals. It does not decide "
                   "what the guarded rewrites do to un-annotated lines."),
    "level_note": "Trusted: CPython ast, re._parser; anchors format_code/has_ignore_comment; text-provenance seeds (first parameter of @processing.fix rules and format_code).",
}
