"""C03 Valid Python in, valid Python out; never write a broken file (partial, DESIGN 3/C03).

R3.1 rollback dominance: the scheduled back-ends return their input or a text on which the validity test held.
R3.2 write guard: a file is written only if the text changed and (new text valid or old text invalid).
R3.3 enumeration of the rule functions of the pipeline by "returns its input or a valid text" (safe-text summary).
R3.4 the validity oracle itself: is_valid_python answers True only after a successful ast.parse of its argument.
"""
from __future__ import annotations

import ast
import re
from typing import Dict, List, Optional, Tuple

from ..defuse import assignments, call_arg, is_reassigned
from ..model import AnalysisError, Func, Program, norm, short, walk_own, walk_body, pipeline_calls, parent
from ..pathcond import plain, And, Lit, Not, Or, PathAnalysis, entails, show, show_text
from ..report import Result

ANCHORS = [("processing", "_apply_rewrites"), ("processing", "_replace_nodes"), ("fixes", "fix_import_spacing")]
WRITERS = [("main", "format_file"), ("pattern_matching", "main")]

PARAM, VALID, SAFE, UNKNOWN = "PARAM", "VALID", "SAFE", "UNKNOWN"
ORDER = {PARAM: 0, VALID: 0, SAFE: 1, UNKNOWN: 2}


def join(a: Optional[str], b: Optional[str]) -> str:
    if a is None:
        return b
    if b is None:
        return a
    if a == b:
        return a
    if UNKNOWN in (a, b):
        return UNKNOWN
    return SAFE


def valid_hook(prog: Program):
    def hook(e, w, an):
        if isinstance(e, ast.Call) and len(e.args) == 1 and not e.keywords:
            r = prog.resolve_call(e.func, an.fn.mod, an.fn)
            if r and r[0] == "fn" and r[1].key == ("core", "is_valid_python"):
                return f"valid({an.term(e.args[0], w)})"
        # the tree comparison keeps_syntax_tree(old, new) answers True only when `new` parsed - or `old` did not; C03 is about
        # valid inputs, and `old` has to be a parameter of the function (the input itself).  Shape of the comparison: R3.4.
        if isinstance(e, ast.Call) and len(e.args) == 2 and not e.keywords and isinstance(e.args[0], ast.Name) and e.args[0].id in an.fn.all_params:
            r = prog.resolve_call(e.func, an.fn.mod, an.fn)
            if r and r[0] == "fn" and r[1].key == COMPARISON_ORACLE:
                return f"valid({an.term(e.args[1], w)})"
        return None
    return hook


COMPARISON_ORACLE = ("core", "keeps_syntax_tree")


class SafeText:
    """Interprocedural summary: does F return its text argument unchanged or a text that passed the validity test?"""

    def __init__(self, prog: Program):
        self.prog = prog
        self.summary: Dict[Tuple[str, str], str] = {}   # func key -> status of the return value w.r.t. param 0
        self.pa: Dict[Tuple[str, str], PathAnalysis] = {}
        self.wrapper = prog.funcs.get(("processing", "fix.<locals>.fix_decorator.<locals>.wrapper"))
        self.func_chain = prog.funcs.get(("processing", "chain.<locals>.func_chain"))

    def analysis(self, fn: Func) -> PathAnalysis:
        if fn.key not in self.pa:
            self.pa[fn.key] = PathAnalysis(self.prog, fn, term_hook=valid_hook(self.prog))
        return self.pa[fn.key]

    def text_param(self, fn: Func) -> Optional[str]:
        """The parameter the summary speaks about: the text being produced (`new_source`) if there is one, else the first."""
        if "new_source" in fn.posparams:
            return "new_source"
        return fn.posparams[0] if fn.posparams else None

    def text_arg(self, call: ast.Call, target: Func) -> Optional[ast.AST]:
        p = self.text_param(target)
        if p is None:
            return None
        return call_arg(call, target.posparams.index(p), p)

    def callee_status(self, call: ast.Call, fn: Func) -> Optional[Tuple[str, ast.AST]]:
        """(status of result w.r.t. text argument, the text argument expr) for calls of summarised functions."""
        target = None
        r = self.prog.resolve_call(call.func, fn.mod, fn)
        if r and r[0] == "fn":
            target = r[1]
            if target.is_fix and self.wrapper is not None:
                target = self.wrapper
        elif isinstance(call.func, ast.Name):
            # a local bound to processing.chain(...) or to a @processing.fix decorated local function
            defs = [v for _, v in assignments(fn, call.func.id)]
            if defs and all(isinstance(v, ast.Call) and self._is_chain(v, fn) for v in defs) and self.func_chain is not None:
                target = self.func_chain
        if target is None or not call.args:
            return None
        st = self.summary.get(target.key)
        if target.key == fn.key:
            # self-recursion on the text: assume the property for the recursive call (partial correctness - if the call returns,
            # it returns its argument or a validated text - termination is C04 R4.c's business); the other returns decide
            st = SAFE
        if st is None:
            return None
        arg = self.text_arg(call, target) if target is not self.func_chain and target is not self.wrapper else call.args[0]
        if arg is None:
            return None
        return st, arg

    def _is_chain(self, call: ast.Call, fn: Func) -> bool:
        r = self.prog.resolve_call(call.func, fn.mod, fn)
        return bool(r and r[0] == "fn" and r[1].key == ("processing", "chain"))

    def expr_status(self, e: ast.AST, fn: Func, env: Dict[str, str], at: ast.AST) -> str:
        p = self.text_param(fn)
        if isinstance(e, ast.Name):
            pa = self.analysis(fn)
            ok, _ = pa.holds_at(at, lambda w: Lit(f"valid({w.token(e.id)})"))
            if ok and pa.reached(at):
                return VALID
            if p is not None and e.id != p and pa.reached(at):
                # `if x == param or <x has the tree of param>: return x`: the parameter itself, or a text that parsed (unless param did not)
                try:
                    same = ast.parse(f"{e.id} == {p}", mode="eval").body
                    ok2, _ = pa.holds_at(at, lambda w: Or(Lit(f"valid({w.token(e.id)})"), pa.formula(same, w, True)))
                except Exception:
                    ok2 = False
                worlds_ = pa.worlds_at(at)
                if ok2 and worlds_ and all(w.token(p) == f"{p}#0" for w in worlds_):
                    return SAFE
            if e.id == p:
                # flow-sensitive: the parameter read while it still holds the value it was called with (`original = source` at the top)
                worlds = pa.worlds_at(at)
                if worlds and all(w.token(p) == f"{p}#0" for w in worlds):
                    return PARAM
            return env.get(e.id, UNKNOWN)
        if isinstance(e, ast.IfExp):
            return join(self.expr_status(e.body, fn, env, at), self.expr_status(e.orelse, fn, env, at))
        if isinstance(e, ast.Call):
            cs = self.callee_status(e, fn)
            if cs:
                st, arg = cs
                a = self.expr_status(arg, fn, env, at)
                if st in (PARAM,):
                    return a
                if st == VALID:
                    return VALID
                if st == SAFE:
                    return {PARAM: SAFE, SAFE: SAFE, VALID: VALID}.get(a, UNKNOWN)
            return UNKNOWN
        if isinstance(e, ast.Subscript) and isinstance(e.slice, ast.Constant) and e.slice.value == 0:
            return self.expr_status(e.value, fn, env, at)   # first component of a (text, ...) tuple
        if isinstance(e, ast.Tuple) and e.elts:
            return self.expr_status(e.elts[0], fn, env, at)
        return UNKNOWN

    def function_status(self, fn: Func) -> str:
        p = self.text_param(fn)
        if p is None:
            return UNKNOWN
        env: Dict[str, str] = {p: PARAM}
        names = {n.id for n in walk_own(fn.node) if isinstance(n, ast.Name)}
        for _ in range(4):
            changed = False
            for name in names:
                defs = assignments(fn, name)
                if not defs:
                    continue
                st = PARAM if name == p else None
                for stmt, value in defs:
                    st = join(st, self.expr_status(value, fn, env, stmt) if value is not None else UNKNOWN)
                if env.get(name) != st:
                    env[name] = st
                    changed = True
            if not changed:
                break
        result = None
        rets = [n for n in walk_own(fn.node) if isinstance(n, ast.Return)]
        if fn.is_generator:
            return UNKNOWN
        for r in rets:
            if r.value is None:
                return UNKNOWN
            result = join(result, self.expr_status(r.value, fn, env, r))
        return result or UNKNOWN

    def solve(self, funcs: List[Func]) -> None:
        for _ in range(5):
            changed = False
            for fn in funcs:
                st = self.function_status(fn)
                if self.summary.get(fn.key) != st:
                    self.summary[fn.key] = st
                    changed = True
            if not changed:
                break


LATER_RULES = ' Later rules: (R3.5) position-based splices in a loop run back to front; (R3.6) a line inserted at an index found by prefix tests on lines needs a validated result; (R3.7) whole-module rollback points also consult a compile oracle; (R3.8) regex-only whitespace editors are decided on the regex AST (whitespace only, ends at a line boundary, puts a line break back); (R3.9) a deletion range widened by a regex match cannot cross a line break. (R3.13) the line above a statement that can carry decorators is not `lineno - 1` (the lines of the decorators count), unless the text built with it is validated; (R3.12) a file is written back in the encoding it was read with (same literal, or the encoding the cookie-aware reader detected).'


def check(prog: Program, tier: str) -> Result:
    res = Result(
        "C03",
        explanation=(
            "Decides the structural clause of C03: (R3.1) in the scheduled rewrite back-ends every returned text is the "
            "input parameter itself or a variable for which the path condition entails a successful "
            "core.is_valid_python test; (R3.2) every statement that writes a formatted file is reached only when the "
            "text changed and the new text is valid or the old one was invalid (directly, or through the "
            "interprocedural safe-text summary 'returns its argument or a validated text'); (R3.4) the validity oracle "
            "returns True only after ast.parse of its argument succeeded. R3.3 enumerates which pipeline stages have the "
            "safe-text summary and which are direct editors (reported, not judged). (R3.5) position-based splices applied in a loop "
            "to the text they were computed for run back to front (descending sort by the position the splice uses). (R3.6) a line inserted at an "
            "index found by prefix tests on the lines (not from the syntax tree) is only returned validated. (R3.7) the rollback points for whole "
            "modules also consult an oracle that calls the COMPILER, relative to the input. Not decided: that direct editors "
            "and layout stages produce parsable text (a runtime property of text)."),
        rule_text=("instances = return statements of the anchor back-ends, write sites of the file entry points, return "
                   "statements of is_valid_python, calls of rule functions in the pipeline; an instance is non-trivial "
                   "when it carries a validity/rollback obligation"),
    )
    res.explanation += LATER_RULES
    res.trusted_base = ["CPython ast", "path-condition engine sa/pathcond.py", "anchor table: " + ", ".join(f"{m}.{q}" for m, q in ANCHORS)]
    res.assumptions = ["core.is_valid_python is the validity oracle (its own shape is checked by R3.4)",
                       "R3.8: no line consists of a lone continuation backslash followed only by blank lines up to the end of the text (collapsing those blank lines leaves the backslash at EOF)",
                       "strings are immutable: a validity fact about a variable version stays true"]
    st = SafeText(prog)

    # ---------------- R3.4 the oracle
    oracle = prog.func("core", "is_valid_python")
    param = oracle.posparams[0] if oracle.posparams else None
    n_true = 0
    for r in [n for n in walk_own(oracle.node) if isinstance(n, ast.Return)]:
        v = r.value
        can_be_true = not (isinstance(v, ast.Constant) and not v.value)
        if not can_be_true:
            res.ok("R3.4", oracle.loc(r), oracle.fq, norm(r), "returns a false constant", trivial=True)
            continue
        n_true += 1
        # must be in the body (not handler) of a try whose body, before this return, parses the parameter,
        # or be itself `return <parse succeeded flag>`
        ok, why = _dominated_by_parse(prog, oracle, r, param)
        res.decide(ok, "R3.4", oracle.loc(r), oracle.fq, norm(r), why)
    if n_true == 0:
        res.bad("R3.4", oracle.loc(), oracle.fq, "no return that can be True", "the oracle can never accept a text")

    # the comparison oracle keeps_syntax_tree(old, new): every answer that can be true requires that `new` parsed, or that `old` did not
    comp = prog.funcs.get(COMPARISON_ORACLE)
    if comp is not None and len(comp.posparams) >= 2:
        old_p, new_p = comp.posparams[:2]
        cpa = PathAnalysis(prog, comp)

        def parsed_var(param: str) -> Optional[str]:
            for name, defs in __import__("sa.defuse", fromlist=["bindings"]).bindings(comp).items():
                for _st, v in defs:
                    if isinstance(v, ast.Call) and len(v.args) == 1 and isinstance(v.args[0], ast.Name) and v.args[0].id == param:
                        rr = prog.resolve_call(v.func, comp.mod, comp)
                        if rr and rr[0] == "fn" and _none_unless_parsed(prog, rr[1]):
                            return name
            return None
        old_v, new_v = parsed_var(old_p), parsed_var(new_p)
        for r in [n for n in walk_own(comp.node) if isinstance(n, ast.Return) and n.value is not None]:
            v = r.value
            if isinstance(v, ast.Constant) and not v.value:
                continue
            ok = False
            if old_v and new_v:
                is_none = lambda name: ast.parse(f"{name} is None", mode="eval").body
                for w in cpa.worlds_at(r) or []:
                    pass
                # (i) reached only when old did not parse, or (ii) the value itself demands that new parsed
                ok1, _ = cpa.holds_at(r, lambda w: cpa.formula(is_none(old_v), w, True))
                demands = isinstance(v, ast.BoolOp) and isinstance(v.op, ast.And) and any(norm(x).replace(" ", "") in (f"{new_v}isnotNone", f"Noneisnot{new_v}") for x in v.values)
                ok2, _ = cpa.holds_at(r, lambda w: cpa.formula(is_none(new_v), w, False))
                ok = ok1 or demands or ok2
            res.decide(ok, "R3.4", comp.loc(r), comp.fq, f"{norm(r)} # the comparison oracle", "true only when the new text parsed, or the old one did not" if ok else
                       "the comparison can answer True for a new text that does not parse although the old one did: stages that rely on it hand on broken text")
    # ---------------- R3.1 rollback dominance
    anchors = [prog.func(m, q) for m, q in ANCHORS]
    for fn in anchors:
        pa = st.analysis(fn)
        p = st.text_param(fn)
        if p is None:
            raise AnalysisError(f"{fn.fq} has no text parameter")
        rets = [n for n in walk_own(fn.node) if isinstance(n, ast.Return)]
        if not rets:
            res.bad("R3.1", fn.loc(), fn.fq, "no return statement", "a back-end must return a text")
        n_tests = 0
        for r in rets:
            _ret_obligation(res, prog, st, fn, pa, p, r, r.value)
        for n in walk_own(fn.node):
            if isinstance(n, ast.Call):
                rr = prog.resolve_call(n.func, fn.mod, fn)
                if rr and rr[0] == "fn" and rr[1].key == ("core", "is_valid_python"):
                    n_tests += 1
        if n_tests == 0:
            res.bad("R3.1", fn.loc(), fn.fq, "no validity test", "the back-end never consults core.is_valid_python")
    res.floors["R3.1"] = 6

    # ---------------- summaries for R3.2 / R3.3
    pipeline_fns: List[Func] = []
    fc = prog.func("main", "format_code")
    mrf = prog.func("main", "_multi_run_fixes")
    seen = set()
    for host in (fc, mrf):
        for call, target in pipeline_calls(prog, host):
            if target.key not in seen and target.posparams and target.posparams[0] in ("source", "src", "content"):
                seen.add(target.key)
                pipeline_fns.append(target)
    extra = [f for f in prog.funcs.values() if f.key in {
        ("processing", "fix.<locals>.fix_decorator.<locals>.wrapper"), ("processing", "chain.<locals>.func_chain"),
        ("pattern_matching", "subn"), ("pattern_matching", "sub"), ("processing", "_substitute_original_strings"),
        ("processing", "_substitute_original_fstrings"), ("processing", "alter_code"), ("processing", "_do_rewrite"),
        ("fixes", "sort_imports"), ("fixes", "_sort_import_statements"), ("fixes", "_fix_imported_as_self_or_unsorted"),
        ("fixes", "fix_duplicate_imports"), ("fixes", "_fix_duplicate_regular_imports"), ("fixes", "_fix_duplicate_from_imports"),
        ("main", "_multi_run_fixes"), ("main", "format_code")}]
    # helpers that a pipeline stage hands its text to (one level): `add_missing_imports` returns what `_fix_undefined_variables` does
    helpers: List[Func] = []
    for host in pipeline_fns:
        for c in prog.calls_in(host):
            rr = prog.resolve_call(c.func, host.mod, host)
            if rr and rr[0] == "fn" and not rr[1].is_fix and rr[1].posparams and rr[1].posparams[0] in ("source", "src", "content") \
                    and rr[1].key not in seen and rr[1].key not in {f.key for f in helpers}:
                helpers.append(rr[1])
    todo = anchors + extra + helpers + pipeline_fns
    st.solve(todo)
    # a nested @processing.fix function (pattern_matching.subn.fix_func) is called through the wrapper
    for fn in pipeline_fns:
        if fn.node.returns is not None and norm(fn.node.returns) in ("bool", "int"):
            res.ok("R3.3", fn.loc(), fn.fq, f"pipeline stage {fn.fq}", f"answers a {norm(fn.node.returns)}, not a text: not an editor", trivial=True)
            continue
        s = st.summary.get(st.wrapper.key) if (fn.is_fix and st.wrapper) else st.summary.get(fn.key, UNKNOWN)
        kind = "scheduled (through processing.fix wrapper)" if fn.is_fix else "direct"
        r38 = (not fn.is_fix) and _r3_8(prog, res, fn)      # judges the regex steps of whitespace editors, whatever follows them
        if s in (PARAM, VALID, SAFE):
            res.ok("R3.3", fn.loc(), fn.fq, f"pipeline stage {fn.fq}", f"{kind}: returns its input or a validated text [{s}]")
        elif r38:
            res.ok("R3.3", fn.loc(), fn.fq, f"pipeline stage {fn.fq}", "direct editor made of whitespace-only regex substitutions that end at a line boundary (R3.8)")
        else:
            # armed form (sixth wave): a stage that hands on what a position-based editor of the repository made (a helper without the
            # summary: remove_nodes, _fix_variable_names, _fix_undefined_variables ..) without validating it.  Both instances the tree had
            # were reproduced (a decorator written `@(  # comment`, an import put between decorator and def) and repaired.
            editor = None
            for r_ in [n for n in walk_own(fn.node) if isinstance(n, ast.Return) and n.value is not None]:
                exprs = [r_.value] + [v for x in ast.walk(r_.value) if isinstance(x, ast.Name) for _s, v in assignments(fn, x.id) if v is not None]
                for e_ in exprs:
                    for c_ in ast.walk(e_):
                        if isinstance(c_, ast.Call):
                            rr = prog.resolve_call(c_.func, fn.mod, fn)
                            if rr and rr[0] == "fn" and not rr[1].is_fix and rr[1].posparams and rr[1].posparams[0] in ("source", "src", "content") \
                                    and st.summary.get(rr[1].key, UNKNOWN) not in (PARAM, VALID, SAFE):
                                st.solve([rr[1]])
                                if st.summary.get(rr[1].key, UNKNOWN) not in (PARAM, VALID, SAFE):
                                    editor = rr[1]
            if editor is not None:
                res.bad("R3.3", fn.loc(), fn.fq, f"pipeline stage {fn.fq}",
                        f"{kind} stage that returns what {editor.fq}() made of the text (an editor that works by positions and does not validate) without consulting the "
                        "validity oracle: when the editor's idea of a position is off (a decorator written over two lines, a comment inside the parenthesis) the broken text "
                        "is handed to the next stage, which raises SyntaxError")
            else:
                res.undecided("R3.3", fn.loc(), fn.fq, f"pipeline stage {fn.fq}",
                              f"{kind} editor without rollback: validity of its output is a runtime property (unguarded surface)")
    if st.wrapper is None or st.summary.get(st.wrapper.key) not in (SAFE, PARAM, VALID):
        res.bad("R3.1", "pyrefact/processing.py:0", "processing.fix", "fix.wrapper result",
                "the processing.fix wrapper does not return its input or the result of _apply_rewrites "
                f"(summary {st.summary.get(st.wrapper.key) if st.wrapper else 'missing'})")
    else:
        res.ok("R3.1", st.wrapper.loc(), st.wrapper.fq, "fix.wrapper result", "wrapper returns input or _apply_rewrites result [SAFE]")
    if st.func_chain is None or st.summary.get(st.func_chain.key) not in (SAFE, PARAM, VALID):
        res.bad("R3.1", "pyrefact/processing.py:0", "processing.chain", "chain.func_chain result",
                "the processing.chain closure does not return its input or the result of _apply_rewrites")
    else:
        res.ok("R3.1", st.func_chain.loc(), st.func_chain.fq, "chain.func_chain result", "returns input or _apply_rewrites result [SAFE]")

    # ---------------- R3.2 write guards
    for m, q in WRITERS:
        fn = prog.func(m, q)
        st.solve([fn])
        pa = st.analysis(fn)
        sites = _write_sites(prog, fn)
        if not sites:
            res.bad("R3.2", fn.loc(), fn.fq, "no write site found", "the file entry point no longer writes (anchor shape changed)")
        for site, written in sites:
            _write_obligation(res, prog, st, fn, pa, site, written)
    res.floors["R3.2"] = 2
    res.floors["R3.8"] = 2
    res.floors["R3.9"] = 1
    res.floors["R3.10"] = 1
    res.floors["R3.11"] = 8
    res.floors["R3.12"] = 2
    res.floors["R3.13"] = 1
    _r3_5(prog, res)
    _r3_6(prog, res, st)
    _r3_7(prog, res)
    _r3_9(prog, res)
    _r3_10(prog, res)
    _r3_11(prog, res)
    _r3_12(prog, res)
    _r3_13(prog, res, st)
    res.analysed.update({"anchor_functions": [f.fq for f in anchors], "pipeline_stages": len(pipeline_fns),
                         "safe_text_summaries": {f"{k[0]}.{k[1]}": v for k, v in sorted(st.summary.items())}})
    return res


def _re_can_match_newline(seq) -> bool:
    for op, av in seq:
        name = str(op)
        if name == "LITERAL" and chr(av) == "\n":
            return True
        if name == "NOT_LITERAL" and chr(av) != "\n":
            return True
        if name == "ANY":
            continue         # `.` does not match a newline without DOTALL
        if name == "IN":
            neg = any(str(o2) == "NEGATE" for o2, _a in av)
            members = [(str(o2), a2) for o2, a2 in av if str(o2) != "NEGATE"]
            hits = any((o2 == "CATEGORY" and str(a2) in ("CATEGORY_SPACE", "CATEGORY_NOT_WORD", "CATEGORY_NOT_DIGIT")) or (o2 == "LITERAL" and chr(a2) == "\n") for o2, a2 in members)
            if hits != neg:
                return True
        if name in ("MAX_REPEAT", "MIN_REPEAT") and _re_can_match_newline(av[2]):
            return True
        if name == "SUBPATTERN" and _re_can_match_newline(av[3]):
            return True
        if name == "BRANCH" and any(_re_can_match_newline(b) for b in av[1]):
            return True
    return False


def _r3_11(prog: Program, res: Result) -> None:
    """A tree and its text belong together: the positions of the nodes are positions in the text that was parsed.  An editor that
    is handed a text and the tree (or nodes of the tree) of an EARLIER version of it cuts in the wrong places - names of another
    length shift everything behind them.  Instance: every call of processing.remove_nodes / processing.alter_code (text, tree);
    obligation: the tree variable was bound to core.parse(<the same variable>) while that variable had the version it has at
    the call (versions of the path-condition engine)."""
    n = 0
    for fn in prog.funcs.values():
        pa = None
        for c in prog.calls_in(fn):
            r = prog.resolve_call(c.func, fn.mod, fn)
            if not (r and r[0] == "fn" and r[1].key in (("processing", "remove_nodes"), ("processing", "alter_code"))):
                continue
            callee = r[1]
            text = call_arg(c, 0, callee.posparams[0])
            ri = callee.posparams.index("root") if "root" in callee.posparams else None
            root = call_arg(c, ri, "root") if ri is not None else None
            if not (isinstance(text, ast.Name) and isinstance(root, ast.Name)):
                continue
            n += 1
            if fn.key == ("processing", "alter_code"):
                res.ok("R3.11", fn.loc(c), fn.fq, short(c, 70), "inside alter_code the actions are applied back to front (R3.5): positions in front of an edit stay those of the given tree", trivial=True)
                continue
            pa = pa or PathAnalysis(prog, fn)
            defs = [(s_, v) for s_, v in assignments(fn, root.id) if v is not None]
            worlds_call = pa.worlds_at(c)
            if not worlds_call:
                res.ok("R3.11", fn.loc(c), fn.fq, short(c, 70), "unreachable", trivial=True)
                continue
            ok, why = True, ""
            for w in worlds_call:
                rtok = w.token(root.id)           # which binding of the tree reaches the call
                binder = next(((s_, v) for s_, v in defs if rtok.endswith(pa.nid(s_))), None)
                if binder is None or not (isinstance(binder[1], ast.Call) and (prog.dotted(binder[1].func) or "").split(".")[-1] == "parse"
                                          and binder[1].args and isinstance(binder[1].args[0], ast.Name)):
                    if root.id in fn.all_params and text.id in fn.all_params and w.token(root.id).endswith("#0") and w.token(text.id).endswith("#0"):
                        continue          # both as given by the caller
                    ok, why = False, f"the tree `{root.id}` is not (visibly) the parse of `{text.id}`"
                    continue
                parsed = binder[1].args[0].id
                at_parse = {x.token(parsed) for x in pa.worlds_at(binder[0])}
                if parsed != text.id or w.token(text.id) not in at_parse:
                    ok = False
                    why = (f"`{root.id}` is the tree of `{parsed}` as it was at line {binder[0].lineno}, but `{text.id}` was rebound since (version {w.token(text.id)}): "
                           "the positions of its nodes are positions in the OLD text")
            res.decide(ok, "R3.11", fn.loc(c), fn.fq, short(c, 70), "the tree is the parse of the very text that is edited" if ok else why)
    if n == 0:
        raise AnalysisError("R3.11: no call of remove_nodes / alter_code found")


def _r3_10(prog: Program, res: Result) -> None:
    """format_code normalises the raw text (tabs, trailing blanks, blank lines) BEFORE it asks whether the text is valid, and
    hands the text back when it is not.  If the normalisation is what broke a valid input (a form feed before a tab-indented
    line, a continuation backslash before the final blank lines), the text handed back is broken while the input was fine.
    Obligation at every early `return <text>` of format_code that is reached under `not valid(<text>)`: the returned variable
    is the unmodified parameter, or the path also knows `not valid(<the unmodified input>)`."""
    fn = prog.func("main", "format_code")
    p = fn.posparams[0]
    pa = PathAnalysis(prog, fn, term_hook=valid_hook(prog))
    from ..pathcond import plain
    n = 0
    for r in walk_own(fn.node):
        if not (isinstance(r, ast.Return) and isinstance(r.value, ast.Name)):
            continue
        worlds = pa.worlds_at(r)
        v = r.value.id
        for w in worlds:
            tok = w.token(v)
            invalid_here = any(f[0] == "lit" and not f[2] and f[1] == f"valid({tok})" for f in w.facts)
            if not invalid_here:
                continue
            n += 1
            is_input = tok == f"{p}#0"
            # a variable that holds the unmodified parameter: bound once, to the parameter, before the parameter is rebound
            input_known_invalid = any(f[0] == "lit" and not f[2] and f[1].startswith("valid(") and (f[1] == f"valid({p}#0)" or _holds_input(pa, fn, w, f[1][6:-1], p)) for f in w.facts)
            ok = is_input or input_known_invalid
            res.decide(ok, "R3.10", fn.loc(r), fn.fq, f"{norm(r)} # the text is known not to parse",
                       "the input itself does not parse (or is returned as it came)" if ok else
                       f"`{v}` was normalised before the validity test; nothing on this path says the INPUT was invalid: a valid text that the normalisation broke is handed back broken")
            break
    if n == 0:
        res.undecided("R3.10", fn.loc(), fn.fq, "early return of an invalid text", "no such return found")


def _holds_input(pa, fn, w, tok: str, p: str) -> bool:
    """tok is a variable (version token) bound exactly once, directly to the parameter while it was still unmodified"""
    from ..defuse import bindings
    name = tok.split("#")[0]
    defs = bindings(fn).get(name, [])
    if len(defs) != 1 or defs[0][1] is None or not (isinstance(defs[0][1], ast.Name) and defs[0][1].id == p):
        return False
    worlds = pa.worlds_at(defs[0][0])
    return bool(worlds) and all(x.token(p) == f"{p}#0" for x in worlds)


def _r3_9(prog: Program, res: Result) -> None:
    """A range of characters to delete is sometimes WIDENED by what a regex matches right behind (or before) it: the `;` and
    the blanks around it after a removed statement.  The widening must stay on the line: if the pattern can consume a line
    break it also eats the indentation of the next line (`\\s*` does), the following statement is glued to the wrong column -
    or into the block before it.  Instance: every regex applied to a tail / head slice of the text (`text[pos:]`, `text[:pos]`)
    whose match length is then added to / subtracted from a position; obligation: the pattern cannot match a newline
    (decided on the regex AST)."""
    import re._parser as sre
    n = 0

    def anchored(ptxt: str) -> bool:
        try:
            items = list(sre.parse(ptxt))
        except Exception:
            return False
        return bool(items) and str(items[0][0]) == "AT" and str(items[0][1]) in ("AT_BEGINNING", "AT_BEGINNING_STRING") and "(?m" not in ptxt
    for fn in prog.funcs.values():
        # form B: <compiled pattern>.match / .search (text, pos) whose match END becomes the position
        for c in walk_own(fn.node):
            if not (isinstance(c, ast.Call) and isinstance(c.func, ast.Attribute) and c.func.attr in ("match", "search") and len(c.args) == 2
                    and isinstance(c.args[0], ast.Name) and c.args[0].id in fn.all_params and isinstance(c.args[1], ast.Name)):
                continue
            ptxt = _regex_of(prog, fn, c.func.value)
            st = c
            while st is not None and not isinstance(st, ast.stmt):
                st = parent(st)
            if ptxt is None or not (isinstance(st, ast.Assign) and isinstance(st.targets[0], ast.Name)):
                continue
            var, pos_name = st.targets[0].id, c.args[1].id
            moves = [a for a in walk_own(fn.node) if isinstance(a, (ast.Assign, ast.AugAssign)) and isinstance(getattr(a, "target", None) or a.targets[0], ast.Name)
                     and (getattr(a, "target", None) or a.targets[0]).id == pos_name and var in {x.id for x in ast.walk(a.value) if isinstance(x, ast.Name)}]
            if not moves:
                continue
            n += 1
            if c.func.attr == "search":
                res.bad("R3.9", fn.loc(c), fn.fq, short(c, 80),
                        f"the pattern {ptxt!r} is SEARCHED from the position on, not matched at it: the deletion is widened up to the next place the pattern occurs anywhere "
                        "later in the text - a `;` in a comment, in a string, many lines below - and everything in between is deleted")
                continue
            try:
                bad = _re_can_match_newline(list(sre.parse(ptxt)))
            except Exception as error:
                res.undecided("R3.9", fn.loc(c), fn.fq, short(c, 80), f"pattern does not parse: {error}")
                continue
            res.decide(not bad, "R3.9", fn.loc(c), fn.fq, short(c, 80), "matched at the position; cannot cross a line break" if not bad else f"the pattern {ptxt!r} can match a line break")
        for c in walk_own(fn.node):
            if not (isinstance(c, ast.Call) and (prog.dotted(c.func) or "") in ("re.findall", "re.match", "re.search", "re.finditer") and len(c.args) >= 2):
                continue
            text = c.args[1]
            if not (isinstance(text, ast.Subscript) and isinstance(text.slice, ast.Slice) and (text.slice.lower is None) != (text.slice.upper is None)):
                continue
            st = c
            while st is not None and not isinstance(st, ast.stmt):
                st = parent(st)
            if not (isinstance(st, ast.Assign) and isinstance(st.targets[0], ast.Name)):
                continue
            var = st.targets[0].id
            pos = text.slice.lower if text.slice.lower is not None else text.slice.upper
            pos_names = {x.id for x in ast.walk(pos) if isinstance(x, ast.Name)}
            # the match length moves the position: pos += len(var[0]) / pos -= len(..)
            moves = [a for a in walk_own(fn.node) if isinstance(a, ast.AugAssign) and isinstance(a.target, ast.Name) and a.target.id in pos_names
                     and isinstance(a.op, (ast.Add, ast.Sub)) and var in {x.id for x in ast.walk(a.value) if isinstance(x, ast.Name)}]     # len(m[0]), m.end(), m.span()[1] ..
            if not moves:
                continue
            ptxt = _regex_of(prog, fn, c.args[0])
            if ptxt is None:
                res.undecided("R3.9", fn.loc(c), fn.fq, short(c, 80), "pattern is not a constant")
                continue
            n += 1
            try:
                bad = _re_can_match_newline(list(sre.parse(ptxt)))
            except Exception as error:
                res.undecided("R3.9", fn.loc(c), fn.fq, short(c, 80), f"pattern does not parse: {error}")
                continue
            if not bad and (prog.dotted(c.func) or "") != "re.match" and text.slice.lower is not None and not anchored(ptxt):
                res.bad("R3.9", fn.loc(c), fn.fq, short(c, 80),
                        f"the pattern {ptxt!r} is not anchored at the start of the tail it is applied to: the first occurrence ANYWHERE behind the position widens the "
                        "deletion, although text lies in between")
                continue
            res.decide(not bad, "R3.9", fn.loc(c), fn.fq, short(c, 80),
                       "the widening cannot cross a line break" if not bad else
                       f"the pattern {ptxt!r} can match a line break: after `x = 1;` at the end of a line the widened range takes the newline and the indentation of the NEXT line, "
                       "so the following statement continues the previous line's block (or the result no longer parses)")
    if n == 0:
        res.undecided("R3.9", "pyrefact/", "package", "regex-widened deletion ranges", "none found (the semicolon purge of remove_nodes is expected)")


def _regex_of(prog: Program, fn: Func, e: ast.AST, depth: int = 0) -> Optional[str]:
    """Pattern text of a str constant / re.compile(..) / local or module-level name bound to one."""
    if depth > 4:
        return None
    if isinstance(e, ast.Constant) and isinstance(e.value, str):
        return e.value
    if isinstance(e, ast.Call) and prog.dotted(e.func) == "re.compile" and e.args and not e.keywords and len(e.args) == 1:
        return _regex_of(prog, fn, e.args[0], depth + 1)
    if isinstance(e, ast.Name):
        from ..defuse import bindings
        defs = [v for (_s, v) in bindings(fn).get(e.id, [])]
        if len(defs) == 1 and defs[0] is not None:
            return _regex_of(prog, fn, defs[0], depth + 1)
        if not defs and e.id in fn.mod.globals:
            return _regex_of(prog, fn, fn.mod.globals[e.id], depth + 1)
    return None


def _r3_8(prog: Program, res: Result, fn: Func) -> bool:
    """A direct editor that is nothing but `text = re.sub(P, R, text)` steps keeps valid Python valid if every step only
    re-spaces blank lines: (a) P consumes whitespace only; (b) what P consumes stops at a line boundary - it ends with a
    newline, or at the end of the text, or the trailing group that may reach into the next line's indentation is put back
    by R - so the indentation of the following statement is never eaten; (c) when P consumes a newline, R puts one back
    (two lines are never joined).  Decided on the regex AST (re._parser).  -> True when the function is such an editor
    and every step passed (then its R3.3 obligation is discharged instead of undecided)."""
    import re._parser as sre
    p = fn.posparams[0] if fn.posparams else None
    if p is None:
        return False
    body = [s_ for s_ in fn.node.body if not (isinstance(s_, ast.Expr) and isinstance(s_.value, ast.Constant))]
    steps = []
    cur = p                 # the variable that holds the text so far (the parameter itself, or one new name)
    rest = list(body)
    while rest:
        s_ = rest[0]
        if not (isinstance(s_, ast.Assign) and len(s_.targets) == 1 and isinstance(s_.targets[0], ast.Name) and isinstance(s_.value, ast.Call)):
            break
        c = s_.value
        if prog.dotted(c.func) == "re.sub" and len(c.args) == 3 and not c.keywords:
            pat, repl, text = c.args
        elif isinstance(c.func, ast.Attribute) and c.func.attr == "sub" and len(c.args) == 2 and not c.keywords:
            pat, (repl, text) = c.func.value, c.args
        else:
            break
        tgt = s_.targets[0].id
        if not (isinstance(text, ast.Name) and text.id == cur and (tgt == cur or (cur == p and tgt != p))):
            break
        cur = tgt
        steps.append((s_, pat, repl))
        rest.pop(0)
    if not steps:
        return False
    # the whole function is such an editor when nothing but `return <text>` follows; with a tail (a comparison of the result with
    # the input, say) the steps are still judged, the function as a whole is judged by its safe-text summary
    whole = len(rest) == 1 and isinstance(rest[0], ast.Return) and isinstance(rest[0].value, ast.Name) and rest[0].value.id == cur
    if not whole and any(isinstance(x, ast.Name) and isinstance(x.ctx, ast.Store) and x.id == cur for st_ in rest for x in ast.walk(st_)):
        return False
    all_ok = True
    for s_, pat, repl in steps:
        ptxt = _regex_of(prog, fn, pat)
        try:
            from .. import strexpr
            with strexpr.context(prog, fn):
                rtxt = strexpr.ev(repl, {})
        except Exception:
            rtxt = None
        if ptxt is None or not isinstance(rtxt, str):
            res.undecided("R3.8", fn.loc(s_), fn.fq, short(s_, 90), "pattern or replacement is not a constant")
            all_ok = False
            continue
        try:
            tree = sre.parse(ptxt)
        except Exception as error:
            res.undecided("R3.8", fn.loc(s_), fn.fq, short(s_, 90), f"pattern does not parse: {error}")
            all_ok = False
            continue
        items = list(tree)
        problems = []

        def space_only(seq) -> bool:
            for op, av in seq:
                name = str(op)
                if name == "LITERAL":
                    if not chr(av).isspace():
                        return False
                elif name == "IN":
                    for o2, a2 in av:
                        if str(o2) == "NEGATE" or (str(o2) == "LITERAL" and not chr(a2).isspace()) or (str(o2) == "CATEGORY" and str(a2) != "CATEGORY_SPACE") \
                                or str(o2) not in ("LITERAL", "CATEGORY"):
                            return False
                elif name in ("MAX_REPEAT", "MIN_REPEAT"):
                    if not space_only(av[2]):
                        return False
                elif name == "SUBPATTERN":
                    if not space_only(av[3]):
                        return False
                elif name == "BRANCH":
                    if not all(space_only(b) for b in av[1]):
                        return False
                elif name in ("AT", "ASSERT", "ASSERT_NOT"):
                    continue        # zero-width
                else:
                    return False
            return True

        def can_match_newline(seq) -> bool:
            for op, av in seq:
                name = str(op)
                if name == "LITERAL" and chr(av) == "\n":
                    return True
                if name == "IN" and any((str(o2) == "CATEGORY" and str(a2) == "CATEGORY_SPACE") or (str(o2) == "LITERAL" and chr(a2) == "\n") for o2, a2 in av):
                    return True
                if name in ("MAX_REPEAT", "MIN_REPEAT") and can_match_newline(av[2]):
                    return True
                if name == "SUBPATTERN" and can_match_newline(av[3]):
                    return True
                if name == "BRANCH" and any(can_match_newline(b) for b in av[1]):
                    return True
            return False

        def tail_horizontal(seq) -> bool:
            """Can the LAST consumed characters be blanks/tabs standing after a newline (= the next line's indentation)?"""
            consuming = [(op, av) for op, av in seq if str(op) not in ("AT", "ASSERT", "ASSERT_NOT")]
            if not consuming:
                return False
            op, av = consuming[-1]
            name = str(op)
            if name == "LITERAL":
                return chr(av) in " \t"
            if name == "IN":
                return any((str(o2) == "CATEGORY" and str(a2) == "CATEGORY_SPACE") or (str(o2) == "LITERAL" and chr(a2) in " \t") for o2, a2 in av)
            if name in ("MAX_REPEAT", "MIN_REPEAT"):
                if tail_horizontal(av[2]):
                    return True
                # an optional last element: look at what stands before it as well
                return av[0] == 0 and tail_horizontal(consuming[:-1])
            if name == "SUBPATTERN":
                return tail_horizontal(av[3])
            if name == "BRANCH":
                return any(tail_horizontal(b) for b in av[1])
            return True
        if not space_only(items):
            problems.append("the pattern consumes characters other than whitespace")
        at_end = any(str(op) == "AT" and str(av) in ("AT_END_STRING", "AT_END") for op, av in items[-1:])
        # the trailing group is put back by the replacement: P = ...(G) [lookahead], R ends with \g<n> / \n
        consuming = [(op, av) for op, av in items if str(op) not in ("AT", "ASSERT", "ASSERT_NOT")]
        restored = False
        if consuming and str(consuming[-1][0]) == "SUBPATTERN" and consuming[-1][1][0] is not None:
            g = consuming[-1][1][0]
            restored = rtxt.endswith(f"\\g<{g}>") or rtxt.endswith(f"\\{g}")
        if not at_end and not restored and tail_horizontal(items):
            problems.append("the match can end in blanks that are the INDENTATION of the next statement, and the replacement does not put them back: "
                            "`if x:\\n\\n\\n\\n    y` loses the indentation of `y`")
        if can_match_newline(items) and "\n" not in rtxt and "\\n" not in rtxt and not at_end:     # "\\n" in a template is a newline as well
            problems.append("the match contains a line break but the replacement has none: two lines are joined")
        ok = not problems
        all_ok = all_ok and ok
        res.decide(ok, "R3.8", fn.loc(s_), fn.fq, short(s_, 90),
                   "whitespace-only substitution that ends at a line boundary" if ok else "; ".join(problems))
    return all_ok and whole


def _r3_7(prog: Program, res: Result) -> None:
    """ast.parse accepts texts the COMPILER rejects: `return` outside a function (a replacement pasted at column 0),
    `yield` inside a comprehension, two parameters of one name, a `__future__` import that is no longer first, `nonlocal`
    without a binding.  Such a file cannot be imported.  The final rollback points for WHOLE modules - the two scheduled
    back-ends and the file writer - must therefore also consult an oracle that calls the compiler, relative to the
    input (snippets that never compiled, e.g. a bare `return x` handed to a rule, must still be rewritable): the text
    handed on is reached only under `compiles(new)` or `not compiles(input)`."""
    # compile oracles: one text parameter, compile(<param>, .., 'exec') in a try whose SyntaxError handler answers False
    oracles = {}
    for f in prog.funcs.values():
        if len(f.posparams) != 1:
            continue
        for c in prog.calls_in(f):
            if isinstance(c.func, ast.Name) and c.func.id == "compile" and len(c.args) >= 3 and norm(c.args[0]) == f.posparams[0] \
                    and isinstance(c.args[2], ast.Constant) and c.args[2].value == "exec":
                from ..evaluator import caught as _caught
                h = _caught(c, f, "SyntaxError")
                if h is not None and any(isinstance(r, ast.Return) and isinstance(r.value, ast.Constant) and r.value.value is False for r in walk_body(h.body)):
                    oracles[f.key] = f
    sites = []
    for m, q in (("processing", "_apply_rewrites"), ("processing", "_replace_nodes")):
        fn = prog.func(m, q)
        p0 = fn.posparams[0]
        for r in walk_own(fn.node):
            if isinstance(r, ast.Return) and isinstance(r.value, ast.Name) and r.value.id != p0:
                sites.append((fn, r, r.value.id, p0, f"return {r.value.id}"))
    wf = prog.func("main", "format_file")
    for site, written in _write_sites(prog, wf):
        if isinstance(written, ast.Name):
            # the text read from the file is the input
            init = None
            for a in walk_own(wf.node):
                if isinstance(a, ast.Assign) and isinstance(a.targets[0], ast.Name) and isinstance(a.value, ast.Call) and isinstance(a.value.func, ast.Attribute) \
                        and a.value.func.attr == "read":
                    init = a.targets[0].id
            sites.append((wf, site, written.id, init, f"write of {written.id}"))
    for fn, node, new, old, text in sites:
        if not oracles:
            res.bad("R3.7", fn.loc(node), fn.fq, text,
                    "no oracle of the package calls the compiler: the text handed on was only parsed; `return` outside a function, `yield` in a comprehension, "
                    "duplicate parameters, a misplaced __future__ import pass the check and the module can no longer be imported")
            continue
        pa = PathAnalysis(prog, fn)
        worlds = pa.worlds_at(node)
        names = [o.name for o in oracles.values()]

        def ok_world(w) -> bool:
            for f_ in w.facts:
                if f_[0] != "lit":
                    continue
                t = plain(f_[1]).replace("core.", "")
                for on in names:
                    if f_[2] and t.startswith(f"{on}({new}"):
                        return True
                    if not f_[2] and old is not None and t.startswith(f"{on}({old}"):
                        return True
            # disjunction `not compiles(old) or compiles(new)` kept as one fact
            from ..pathcond import show
            for f_ in w.facts:
                if f_[0] == "or":
                    t = plain(show(f_)).replace("core.", "")
                    if any(f"{on}({new}" in t for on in names) and (old is None or any(f"not {on}({old}" in t for on in names)):
                        return True
            return False
        ok = bool(worlds) and all(ok_world(w) for w in worlds)
        res.decide(ok, "R3.7", fn.loc(node), fn.fq, text,
                   f"reached only when the compiler accepts '{new}' or did not accept the input either ({', '.join(names)})" if ok else
                   f"'{new}' is handed on after a parse-only check: a text that parses but does not compile replaces a module that did")
    res.floors["R3.7"] = 2


def _r3_6(prog: Program, res: Result, st) -> None:
    """Inserting a line into the module text at an index found by looking at the TEXT of the lines (prefix tests such
    as `not line.startswith('#')`) can land inside a statement that spans several lines (a parenthesised import, a
    docstring, a bracketed expression): the result no longer parses.  Instance: `L.insert(i, text)` on the list of
    lines of the module text where i is computed from line prefixes and not from node positions.  Obligation: the
    function validates what it returns (safe-text summary) - otherwise the broken text is handed to the next stage."""
    from ..defuse import bindings
    n = 0
    for fn in prog.funcs.values():
        binds = bindings(fn)
        def _is_line_split(v) -> bool:
            if isinstance(v, (ast.ListComp, ast.GeneratorExp)) and v.generators:
                return _is_line_split(v.generators[0].iter)       # [line.rstrip() for line in split_lines(text)]
            return isinstance(v, ast.Call) and ((isinstance(v.func, ast.Attribute) and v.func.attr == "splitlines")
                                                or norm(v.func).endswith("split_lines")
                                                or (isinstance(v.func, ast.Name) and v.func.id in ("list", "tuple") and bool(v.args) and _is_line_split(v.args[0])))
        line_lists = {name for name, defs in binds.items() for _s, v in defs if v is not None and _is_line_split(v)}
        if not line_lists:
            continue
        for c in prog.calls_in(fn):
            if not (isinstance(c.func, ast.Attribute) and c.func.attr == "insert" and isinstance(c.func.value, ast.Name) and c.func.value.id in line_lists and len(c.args) == 2):
                continue
            idx = c.args[0]
            texts = [norm(idx)]
            for x in ast.walk(idx):
                if isinstance(x, ast.Name):
                    texts.extend(norm(v) for _s, v in binds.get(x.id, []) if v is not None)
            blob = " ".join(texts)
            from_text = any(k in blob for k in (".startswith(", ".endswith(", "re.match(", "re.search(", ".strip()", ".lstrip()"))
            from_tree = any(k in blob for k in (".lineno", ".end_lineno", "get_charnos(", "charno"))
            if not from_text or from_tree:
                continue
            n += 1
            try:
                st.solve([fn])
            except Exception:
                pass
            summary = st.summary.get(fn.key)
            ok = summary in ("SAFE", "VALID", "PARAM")
            res.decide(ok, "R3.6", fn.loc(c), fn.fq, short(c, 70),
                       "the function only returns its input or a validated text" if ok else
                       f"the insertion index is found by prefix tests on the lines ({short(idx, 30)}), not from the syntax tree, and the result is returned "
                       f"unvalidated (summary {summary}): with a statement in front that spans several lines (a parenthesised __future__ import, a docstring "
                       "sharing its line with a bracketed expression) the new line lands in its middle and the next stage raises SyntaxError")
    res.analysed["line_insertions_by_text_heuristics"] = n


def _r3_5(prog: Program, res: Result) -> None:
    """Position-based splices applied in a loop to the text they were computed for must run back to front: every splice
    changes the length of the text, so after a splice all positions behind it are stale; only positions in front of it
    stay valid.  Instance: `T = T[:a] + x + T[b:]` (also on a list of lines) inside a `for` loop whose target supplies
    a / b; obligation: the loop iterates `sorted(.., reverse=True)` (or reversed(sorted(..))) and, if a key is given,
    the key orders by the position the splice uses."""
    from ..defuse import bindings
    from ..model import ancestors
    n = 0
    for fn in prog.funcs.values():
        for a in walk_own(fn.node):
            if not (isinstance(a, ast.Assign) and len(a.targets) == 1 and isinstance(a.targets[0], ast.Name) and isinstance(a.value, ast.BinOp)):
                continue
            t = a.targets[0].id
            sl = [x for x in ast.walk(a.value) if isinstance(x, ast.Subscript) and isinstance(x.value, ast.Name) and x.value.id == t and isinstance(x.slice, ast.Slice)]
            if len(sl) < 2:
                continue
            loop = next((l for l in ancestors(a) if isinstance(l, (ast.For, ast.While)) and l is not a), None)
            if loop is None:
                continue
            text = short(a, 90)
            if isinstance(loop, ast.While):
                res.undecided("R3.5", fn.loc(a), fn.fq, text, "splice inside a while loop: order of application not recognised")
                continue
            tnames = {x.id for x in ast.walk(loop.target) if isinstance(x, ast.Name)}
            bounds = [b for s_ in sl for b in (s_.slice.lower, s_.slice.upper) if b is not None]
            if not any(tnames & {x.id for x in ast.walk(b) if isinstance(x, ast.Name)} for b in bounds):
                continue    # positions do not come from the loop target: not a sequence of precomputed splices
            n += 1
            it = loop.iter
            if isinstance(it, ast.Name):
                defs = [v for (_s, v) in bindings(fn).get(it.id, []) if v is not None]
                it = defs[0] if len(defs) == 1 else it
            desc = None    # True descending / False ascending / None unknown
            key = None
            if isinstance(it, ast.Call) and isinstance(it.func, ast.Name) and it.func.id == "sorted":
                rev = next((k.value for k in it.keywords if k.arg == "reverse"), None)
                key = next((k.value for k in it.keywords if k.arg == "key"), None)
                desc = isinstance(rev, ast.Constant) and rev.value is True
                if rev is not None and not isinstance(rev, ast.Constant):
                    desc = None
            elif isinstance(it, ast.Call) and isinstance(it.func, ast.Name) and it.func.id == "reversed" and it.args \
                    and isinstance(it.args[0], ast.Call) and isinstance(it.args[0].func, ast.Name) and it.args[0].func.id == "sorted":
                inner = it.args[0]
                rev = next((k.value for k in inner.keywords if k.arg == "reverse"), None)
                key = next((k.value for k in inner.keywords if k.arg == "key"), None)
                desc = rev is None or (isinstance(rev, ast.Constant) and rev.value is False)
            if desc is None:
                res.undecided("R3.5", fn.loc(a), fn.fq, text, f"order of `{short(loop.iter, 60)}` not recognised")
                continue
            key_ok = True
            why_key = ""
            if desc and key is not None:
                key_ok = False
                if isinstance(key, ast.Lambda) and len(key.args.args) == 1:
                    p = key.args.args[0].arg
                    primary = key.body.elts[0] if isinstance(key.body, ast.Tuple) and key.body.elts else key.body
                    ptxt = norm(primary)
                    if isinstance(loop.target, ast.Name):
                        want = re.sub(rf"\b{re.escape(p)}\b", loop.target.id, ptxt)
                        key_ok = any(want in norm(b) for b in bounds)
                    elif isinstance(loop.target, ast.Tuple):
                        # key on t[0] / t[:k] with the first target component used as a bound
                        first = loop.target.elts[0]
                        key_ok = ptxt in (f"{p}[0]", p) or ptxt.startswith(f"{p}[:")
                        key_ok = key_ok and isinstance(first, ast.Name) and any(first.id in {x.id for x in ast.walk(b) if isinstance(x, ast.Name)} for b in bounds)
                    why_key = f"key `{short(key, 50)}`"
                else:
                    res.undecided("R3.5", fn.loc(a), fn.fq, text, f"sort key `{short(key, 50)}` not analysable")
                    continue
            ok = bool(desc) and key_ok
            res.decide(ok, "R3.5", fn.loc(a), fn.fq, text,
                       f"applied back to front ({short(loop.iter, 60)})" if ok else
                       (f"the splices are applied in ascending order ({short(loop.iter, 70)}): after the first one that changes the length, "
                        "all later positions are stale and the text is cut in the wrong places" if not desc else
                        f"descending, but by {why_key}, which is not the position the splice uses"))
    # second shape: the text is threaded through position-based EDITORS of the repository, one element per iteration
    # (processing.alter_code): `for .. in sorted(actions, reverse=True): T = editor(T, ..)`
    EDITORS = {"_insert_nodes", "remove_nodes", "_replace_nodes"}
    for fn in prog.funcs.values():
        for loop in walk_own(fn.node):
            if not isinstance(loop, ast.For):
                continue
            threads = []
            for a in ast.walk(loop):
                if isinstance(a, ast.Assign) and len(a.targets) == 1 and isinstance(a.targets[0], ast.Name) and isinstance(a.value, ast.Call) and a.value.args \
                        and isinstance(a.value.args[0], ast.Name) and a.value.args[0].id == a.targets[0].id:
                    r = prog.resolve_call(a.value.func, fn.mod, fn)
                    if r and r[0] == "fn" and r[1].name in EDITORS:
                        threads.append(a)
            if len(threads) < 2:
                continue
            n += 1
            it = loop.iter
            desc = None
            if isinstance(it, ast.Call) and isinstance(it.func, ast.Name) and it.func.id == "sorted" and it.args:
                rev = next((k.value for k in it.keywords if k.arg == "reverse"), None)
                desc = isinstance(rev, ast.Constant) and rev.value is True and not any(k.arg == "key" for k in it.keywords)
                coll = it.args[0]
                if isinstance(coll, ast.Name):
                    defs = [v for (_s, v) in bindings(fn).get(coll.id, []) if v is not None]
                    coll = defs[0] if len(defs) == 1 else coll
                firsts = [g.elt.elts[0] for st_ in (coll.elts if isinstance(coll, (ast.List, ast.Tuple)) else []) if isinstance(st_, ast.Starred)
                          for g in [st_.value] if isinstance(g, (ast.GeneratorExp, ast.ListComp)) and isinstance(g.elt, ast.Tuple) and g.elt.elts]
                by_line = bool(firsts) and all(norm(f).endswith(".lineno") for f in firsts)
            elif isinstance(it, ast.Call) and isinstance(it.func, ast.Name) and it.func.id == "reversed":
                desc, by_line = None, False
            else:
                by_line = False
            text = f"for {norm(loop.target)} in {short(loop.iter, 50)}: {len(threads)} position-based editors applied in turn"
            if desc is None:
                res.undecided("R3.5", fn.loc(loop), fn.fq, text, "order of application not recognised")
            else:
                ok = desc and by_line
                res.decide(ok, "R3.5", fn.loc(loop), fn.fq, text,
                           "actions are applied from the last line to the first (sorted descending, line number first)" if ok else
                           "the actions are not applied from the last line upwards: the first insertion or removal shifts every line number the later actions rely on")
    res.floors["R3.5"] = 1


def _none_unless_parsed(prog: Program, f: Func) -> bool:
    """f(text) returns a tree only out of a successful ast.parse of (a text derived from) its parameter, and None otherwise:
    every return is `return None` or returns a name bound, in a try with a SyntaxError handler, to ast.parse(..)."""
    rets = [r for r in walk_own(f.node) if isinstance(r, ast.Return)]
    if not rets:
        return False
    for r in rets:
        if r.value is None or (isinstance(r.value, ast.Constant) and r.value.value is None):
            continue
        if not isinstance(r.value, ast.Name):
            return False
        ok = False
        for t in walk_own(f.node):
            if isinstance(t, ast.Try) and any("SyntaxError" in norm(h.type) for h in t.handlers if h.type is not None):
                for st_ in t.body:
                    if isinstance(st_, ast.Assign) and isinstance(st_.targets[0], ast.Name) and st_.targets[0].id == r.value.id \
                            and isinstance(st_.value, ast.Call) and norm(st_.value.func) in ("ast.parse", "parse", "core.parse"):
                        # a failed parse must not fall through to the return: the handler leaves (continue / return / raise)
                        if all(h.body and isinstance(h.body[-1], (ast.Continue, ast.Return, ast.Raise)) for h in t.handlers):
                            ok = True
        if not ok:
            return False
    return True


def _dominated_by_parse(prog: Program, fn: Func, ret: ast.Return, param: Optional[str]) -> Tuple[bool, str]:
    from ..model import ancestors
    prev = ret
    for a in ancestors(ret):
        if a is fn.node:
            break
        if isinstance(a, ast.Try):
            in_body = any(prev is s for s in a.body) or any(prev is s for s in a.orelse)
            if in_body:
                stmts = a.body if any(prev is s for s in a.body) else a.body + a.orelse
                before = []
                for s in stmts:
                    if s is prev:
                        break
                    before.append(s)
                if any(prev is s for s in a.orelse):
                    before = a.body
                for s in before:
                    for c in ast.walk(s):
                        if isinstance(c, ast.Call) and prog.dotted(c.func) in ("ast.parse", "compile", "parse") and c.args \
                                and isinstance(c.args[0], ast.Name) and c.args[0].id == param:
                            catches = [norm(h.type) for h in a.handlers if h.type is not None]
                            if any("SyntaxError" in c2 or c2 in ("Exception", "BaseException") for c2 in catches) or any(h.type is None for h in a.handlers):
                                return True, f"after a successful {norm(c)} inside try/except {catches}"
            else:
                return False, "return that can be True sits in an exception handler / finally of the parse attempt"
        prev = a
    return False, "return that can be True is not dominated by a successful ast.parse of the parameter"


def _ret_obligation(res: Result, prog: Program, st: SafeText, fn: Func, pa: PathAnalysis, p: str, r: ast.Return, v, extra=None):
    where = fn.loc(r)
    if v is None:
        res.bad("R3.1", where, fn.fq, norm(r), "returns None instead of a text")
        return
    if isinstance(v, ast.IfExp):
        # return a if test else b  -> two obligations under the test
        for branch, pol in ((v.body, True), (v.orelse, False)):
            _ret_branch(res, prog, st, fn, pa, p, r, branch, v.test, pol)
        return
    _ret_branch(res, prog, st, fn, pa, p, r, v, None, None)


def _ret_branch(res, prog, st, fn, pa, p, r, v, test, pol):
    where = fn.loc(r)
    text = norm(r) if test is None else f"{norm(r)} [{'then' if pol else 'else'} branch]"
    if isinstance(v, ast.Name):
        if v.id == p and not is_reassigned(fn, p):
            res.ok("R3.1", where, fn.fq, text, f"returns the unmodified input parameter '{p}' (rollback)")
            return
        worlds = pa.worlds_at(r)
        if test is not None:
            worlds = [pa.assume(w, test, pol) for w in worlds]
        missing = []
        for w in worlds:
            goal = Lit(f"valid({w.token(v.id)})")
            if not entails(w.facts, goal):
                # alias of the parameter (x = source, never reassigned afterwards)?
                missing.append(show_text(show(goal)))
        if not worlds:
            res.ok("R3.1", where, fn.fq, text, "unreachable", trivial=True)
        elif not missing:
            res.ok("R3.1", where, fn.fq, text, f"path condition entails valid({v.id}) in {len(worlds)} world(s)")
        else:
            res.bad("R3.1", where, fn.fq, text,
                    f"returned text '{v.id}' is neither the input parameter nor validated on this path: lacking {missing[0]}")
        return
    if isinstance(v, ast.Call):
        cs = st.callee_status(v, fn)
        if cs and cs[0] in (SAFE, VALID, PARAM):
            res.undecided("R3.1", where, fn.fq, text, f"delegates to a safe-text callee [{cs[0]}]; argument not re-validated here")
            return
    res.undecided("R3.1", where, fn.fq, text, "returned expression is not a variable; validity not tracked")


def _write_sites(prog: Program, fn: Func):
    """(site node, written text expr) for file writes in fn."""
    out = []
    for n in walk_own(fn.node):
        if isinstance(n, (ast.With, ast.AsyncWith)):
            for item in n.items:
                c = item.context_expr
                if isinstance(c, ast.Call) and prog.dotted(c.func) in ("open", "io.open") or (
                        isinstance(c, ast.Call) and isinstance(c.func, ast.Attribute) and c.func.attr == "open"):
                    mode = call_arg(c, 1, "mode") if prog.dotted(c.func) in ("open", "io.open") else call_arg(c, 0, "mode")
                    if isinstance(mode, ast.Constant) and isinstance(mode.value, str) and any(ch in mode.value for ch in "wax+"):
                        handle = item.optional_vars.id if isinstance(item.optional_vars, ast.Name) else None
                        written = None
                        for b in ast.walk(n):
                            if isinstance(b, ast.Call) and isinstance(b.func, ast.Attribute) and b.func.attr in ("write", "writelines") \
                                    and isinstance(b.func.value, ast.Name) and b.func.value.id == handle and b.args:
                                written = b.args[0]
                        out.append((n, written))
        elif isinstance(n, ast.Call) and isinstance(n.func, ast.Attribute) and n.func.attr in ("write_text", "write_bytes") and n.args:
            out.append((n, n.args[0]))
    return out


def _write_obligation(res: Result, prog: Program, st: SafeText, fn: Func, pa: PathAnalysis, site, written):
    where = fn.loc(site)
    text = short(site if isinstance(site, ast.Call) else site.items[0].context_expr)
    if not isinstance(written, ast.Name):
        res.undecided("R3.2", where, fn.fq, text, "written value is not a variable")
        return
    new = written.id
    # old = the text the new one was computed from: first argument (or `source` argument) of the call defining new
    old = None
    how = None
    for stmt, value in assignments(fn, new):
        call = value
        if isinstance(call, ast.Call):
            cands = [a for a in call.args if isinstance(a, ast.Name)]
            cs = st.callee_status(call, fn)
            r = prog.resolve_call(call.func, fn.mod, fn)
            if r and r[0] == "fn":
                tp = r[1].posparams
                # the text parameter of the callee: the one named like a source text
                for i, pn in enumerate(tp):
                    if pn in ("source", "src", "content", "text"):
                        a = call_arg(call, i, pn)
                        if isinstance(a, ast.Name):
                            old = a.id
                            st.solve([r[1]])
                            how = st.summary.get(r[1].key)
                            if r[1].key == ("pattern_matching", "sub"):
                                how = _sub_summary(prog, st)
                            break
    if old is None:
        res.undecided("R3.2", where, fn.fq, text, f"cannot identify the text '{new}' was computed from")
        return
    worlds = pa.worlds_at(site)
    if not worlds:
        res.ok("R3.2", where, fn.fq, text, "unreachable", trivial=True)
        return
    problems = []
    for w in worlds:
        a, b = sorted((w.token(new), w.token(old)))
        changed = Lit(f"eq({a}, {b})", False)
        validity = Or(Lit(f"valid({w.token(new)})"), Lit(f"valid({w.token(old)})", False))
        if not entails(w.facts, changed):
            problems.append(f"write not guarded by {new} != {old}")
        elif not entails(w.facts, validity) and how not in (SAFE, VALID, PARAM):
            problems.append(f"write not guarded by valid({new}) or not valid({old}), and the producer of '{new}' "
                            f"has no safe-text summary [{how}]")
    if problems:
        res.bad("R3.2", where, fn.fq, text, problems[0])
    else:
        res.ok("R3.2", where, fn.fq, text,
               f"reached only under {new} != {old} and (valid({new}) or not valid({old}))"
               + (f" [validity through safe-text summary {how}]" if how in (SAFE, VALID, PARAM) else ""))


def _sub_summary(prog: Program, st: SafeText) -> str:
    """pattern_matching.sub(pattern, repl, source): text parameter is the third one; follow sub -> subn -> fix wrapper."""
    sub = prog.func("pattern_matching", "sub")
    subn = prog.func("pattern_matching", "subn")
    wrapper_ok = st.wrapper is not None and st.summary.get(st.wrapper.key) in (SAFE, PARAM, VALID)
    if not wrapper_ok:
        return UNKNOWN

    def returns_fix_of(fn: Func, param: str) -> bool:
        # every return yields (component 0 of) a value bound to <local @processing.fix function>(param) or subn(...source...)
        ok_names = set()
        for n in walk_own(fn.node):
            if isinstance(n, ast.Assign) and isinstance(n.value, ast.Call):
                call = n.value
                r = prog.resolve_call(call.func, fn.mod, fn)
                good = False
                if r and r[0] == "fn" and r[1].is_fix and call.args and isinstance(call.args[0], ast.Name) and call.args[0].id == param:
                    good = True
                if r and r[0] == "fn" and r[1].key == subn.key and fn is sub:
                    a = call_arg(call, 2, "source")
                    good = isinstance(a, ast.Name) and a.id == param and returns_fix_of(subn, "source")
                if good:
                    for t in n.targets:
                        if isinstance(t, ast.Name):
                            ok_names.add(t.id)
                        elif isinstance(t, ast.Tuple) and t.elts and isinstance(t.elts[0], ast.Name):
                            ok_names.add(t.elts[0].id)
        rets = [n for n in walk_own(fn.node) if isinstance(n, ast.Return)]
        if not rets:
            return False
        for r in rets:
            v = r.value
            if isinstance(v, ast.Tuple) and v.elts:
                v = v.elts[0]
            if not (isinstance(v, ast.Name) and v.id in ok_names and len(assignments(fn, v.id)) == 1):
                return False
        return True

    return SAFE if returns_fix_of(sub, "source") else UNKNOWN


# ------------------------------------------------------------------------------------------------ R3.12
def _enc_norm(text: str) -> str:
    return text.lower().replace("_", "-")


def _r3_12(prog: Program, res: Result) -> None:
    """Whether a file is valid Python is a question about its BYTES (byte order mark, coding cookie).  A file entry point
    that reads a file and writes the formatted text back must write in the encoding it decoded with: the same literal on
    both sides, or - when the reader honours the cookie (tokenize.open) - the encoding that reader detected
    (<stream>.encoding).  Otherwise a valid file whose cookie names another codec is replaced by bytes that codec cannot
    decode (or decodes to other characters), whatever the write guard found out about the text."""
    from ..defuse import bindings
    for m, q in WRITERS:
        fn = prog.func(m, q)
        reads = []      # (node, descriptor)
        streams = {}    # handle name -> descriptor of its reader
        for n in walk_own(fn.node):
            if isinstance(n, (ast.With, ast.AsyncWith)):
                for item in n.items:
                    c = item.context_expr
                    if not isinstance(c, ast.Call):
                        continue
                    d = prog.dotted(c.func)
                    handle = item.optional_vars.id if isinstance(item.optional_vars, ast.Name) else None
                    if d == "tokenize.open":
                        reads.append((c, ("cookie", handle)))
                        streams[handle] = ("cookie", handle)
                    elif d in ("open", "io.open") or (isinstance(c.func, ast.Attribute) and c.func.attr == "open"):
                        mode = call_arg(c, 1, "mode") if d in ("open", "io.open") else call_arg(c, 0, "mode")
                        mode_s = mode.value if isinstance(mode, ast.Constant) and isinstance(mode.value, str) else "r"
                        if any(ch in mode_s for ch in "wax+") or "b" in mode_s:
                            continue
                        enc = call_arg(c, 99, "encoding")
                        reads.append((c, ("lit", _enc_norm(enc.value)) if isinstance(enc, ast.Constant) and isinstance(enc.value, str) else
                                      ("default",) if enc is None else ("expr", norm(enc))))
            elif isinstance(n, ast.Call) and isinstance(n.func, ast.Attribute) and n.func.attr == "read_text":
                enc = call_arg(n, 0, "encoding")
                reads.append((n, ("lit", _enc_norm(enc.value)) if isinstance(enc, ast.Constant) and isinstance(enc.value, str) else
                              ("default",) if enc is None else ("expr", norm(enc))))
        if not reads:
            continue

        def write_descriptor(enc):
            if enc is None:
                return ("default",)
            if isinstance(enc, ast.Constant) and isinstance(enc.value, str):
                return ("lit", _enc_norm(enc.value))
            if isinstance(enc, ast.Attribute) and enc.attr == "encoding" and isinstance(enc.value, ast.Name) and enc.value.id in streams:
                return ("stream", enc.value.id)
            if isinstance(enc, ast.Name):
                defs = bindings(fn).get(enc.id, [])
                ds = {write_descriptor(v) for _s, v in defs if v is not None}
                if len(ds) == 1 and len(defs) == len([1 for _s, v in defs if v is not None]):
                    return ds.pop()
            return ("expr", norm(enc))
        for site, _written in _write_sites(prog, fn):
            if isinstance(site, (ast.With, ast.AsyncWith)):
                c = [i.context_expr for i in site.items if isinstance(i.context_expr, ast.Call)][0]
                enc = call_arg(c, 99, "encoding")
                mode = call_arg(c, 1, "mode") if prog.dotted(c.func) in ("open", "io.open") else call_arg(c, 0, "mode")
                if isinstance(mode, ast.Constant) and "b" in str(mode.value):
                    res.undecided("R3.12", fn.loc(site), fn.fq, short(c, 80), "binary write: the encoding is chosen where the bytes are made")
                    continue
            elif isinstance(site, ast.Call) and site.func.attr == "write_text":
                enc = call_arg(site, 1, "encoding")
                c = site
            else:
                res.undecided("R3.12", fn.loc(site), fn.fq, short(site, 80), "binary write: the encoding is chosen where the bytes are made")
                continue
            wd = write_descriptor(enc)
            ok = False
            why = ""
            for _r, rd in reads:
                if rd[0] == "lit" and wd == rd:
                    ok, why = True, f"read and written as {rd[1]}"
                elif rd[0] == "cookie" and wd == ("stream", rd[1]):
                    ok, why = True, "written in the encoding the cookie-aware reader detected"
                elif rd[0] == "default" and wd == ("default",):
                    ok, why = True, "read and written in the locale's encoding"
            if not ok:
                why = (f"the file is read as {' / '.join(sorted({'the encoding its cookie names' if r[1][0] == 'cookie' else r[1][-1] if len(r[1]) > 1 else 'the locale default' for r in reads}))}"
                       f" and written as {wd[-1] if len(wd) > 1 else 'the locale default'}: a valid file whose bytes are not in that encoding is replaced by an invalid (or different) one")
            res.decide(ok, "R3.12", fn.loc(site), fn.fq, f"{short(c, 80)} # encoding of the write", why)


# ------------------------------------------------------------------------------------------------ R3.13
_DECORATABLE = {"FunctionDef", "AsyncFunctionDef", "ClassDef"}


def _stmt_kinds_of(prog: Program, fn: Func, name: str) -> Optional[set]:
    """Node kinds a local can hold, read off where it is bound: None = not known; {"*"} = any statement."""
    from ..defuse import bindings
    kinds: set = set()
    defs = bindings(fn).get(name, [])
    if not defs or name in fn.all_params:
        return None
    for st_, v in defs:
        it = None
        if isinstance(st_, (ast.For, ast.AsyncFor)):
            it = st_.iter
        elif v is not None:
            it = v
        else:
            return None
        while isinstance(it, ast.Call) and isinstance(it.func, ast.Name) and it.func.id in ("enumerate", "list", "tuple", "sorted", "reversed", "iter") and it.args:
            it = it.args[0]
        if isinstance(it, ast.Subscript):       # tree.body[0], tree.body[1:]
            it = it.value
        if isinstance(it, ast.Attribute) and it.attr in ("body", "orelse", "finalbody"):
            kinds.add("*")
            continue
        if isinstance(it, ast.Call):
            classes = {x.attr for a in list(it.args[1:]) + [k.value for k in it.keywords] for x in ast.walk(a)
                       if isinstance(x, ast.Attribute) and isinstance(x.value, ast.Name) and fn.mod.aliases.get(x.value.id) == ("ext", "ast") and hasattr(ast, x.attr)}
            d = norm(it.func)
            if d.endswith(("walk", "filter_nodes")) and classes:
                kinds |= classes
                continue
            if d.endswith(("iter_funcdefs", "iter_classdefs")):
                kinds |= _DECORATABLE
                continue
        return None
    return kinds


def _r3_13(prog: Program, res: Result, st) -> None:
    """The line above statement X is `X.lineno - 1` only when X cannot carry decorators: for a decorated def / class, lineno
    is the line of `def` / `class` and the decorators stand above it, so a line put at that index lands BETWEEN the decorator
    and the definition and the text no longer parses.  Instance: `<X>.lineno - 1` where X is drawn from a statement list or
    from a search for definition kinds.  Discharged when the function consults `decorator_list`, or only returns its input or a
    validated text (then the misplaced line is rolled back, never handed on)."""
    n = 0
    for fn in prog.funcs.values():
        for e in walk_own(fn.node):
            if not (isinstance(e, ast.BinOp) and isinstance(e.op, ast.Sub) and isinstance(e.right, ast.Constant) and e.right.value == 1
                    and isinstance(e.left, ast.Attribute) and e.left.attr == "lineno" and isinstance(e.left.value, ast.Name)):
                continue
            x = e.left.value.id
            kinds = _stmt_kinds_of(prog, fn, x)
            n += 1
            if kinds is None:
                res.undecided("R3.13", fn.loc(e), fn.fq, f"{norm(e)} # the line above a statement", "what kind of node this is cannot be read off its binding")
                continue
            if "*" not in kinds and not (kinds & _DECORATABLE):
                res.ok("R3.13", fn.loc(e), fn.fq, f"{norm(e)} # the line above a statement", f"{'/'.join(sorted(kinds))} carry no decorators", trivial=True)
                continue
            aware = any(isinstance(a, ast.Attribute) and a.attr == "decorator_list" for a in walk_own(fn.node))
            summary = None
            if not aware:
                try:
                    st.solve([fn])
                except Exception:
                    pass
                summary = st.summary.get(fn.key)
            ok = aware or summary in ("SAFE", "VALID", "PARAM")
            res.decide(ok, "R3.13", fn.loc(e), fn.fq, f"{norm(e)} # the line above a statement",
                       "the function looks at the decorators" if aware else "the function only returns its input or a validated text" if ok else
                       f"the statement can be a decorated def / class ({'any statement of a body' if '*' in kinds else '/'.join(sorted(kinds & _DECORATABLE))}): its lineno is the line "
                       f"of the def, the decorators stand above it, and what is put at this index lands between decorator and definition; the text is returned unvalidated (summary {summary})")
    res.analysed["lines_above_a_statement"] = n


# ---------------------------------------------------------------------------------------------- self-test
from ..selftest import Variant  # noqa: E402

VARIANTS = [
    Variant("import-put-above-the-def-line-of-a-decorated-definition", "FIRE", "fixes",
            "        first_lineno = min([node.lineno, *(x.lineno for x in getattr(node, \"decorator_list\", ()))])\n        # If it shares its first line with e.g. the docstring, it is better to go after it\n        lineno = first_lineno - 1 if first_lineno > last_skipped_lineno else node.end_lineno\n",
            "        lineno = node.lineno - 1 if node.lineno > last_skipped_lineno else node.end_lineno\n", "R3.13",
            extra=[("fixes", "    new_source = \"\".join(lines)\n    if not core.is_valid_python(new_source):\n        return source\n\n    return new_source\n", "    return \"\".join(lines)\n")]),
    Variant("import-put-above-the-def-line-but-result-validated", "SILENT", "fixes",
            "        first_lineno = min([node.lineno, *(x.lineno for x in getattr(node, \"decorator_list\", ()))])\n        # If it shares its first line with e.g. the docstring, it is better to go after it\n        lineno = first_lineno - 1 if first_lineno > last_skipped_lineno else node.end_lineno\n",
            "        lineno = node.lineno - 1 if node.lineno > last_skipped_lineno else node.end_lineno\n"),
    Variant("file-read-by-cookie-written-as-utf8", "FIRE", "main", '    with open(filename, "r", encoding="utf-8") as stream:\n        initial_content = stream.read()\n\n    keep_imports',
            '    import tokenize\n    with tokenize.open(filename) as stream:\n        initial_content = stream.read()\n\n    keep_imports', "R3.12"),
    Variant("replace-command-writes-utf8", "FIRE", "pattern_matching", "filename.write_text(new_source, encoding=encoding)", 'filename.write_text(new_source, encoding="utf-8")', "R3.12"),
    Variant("replace-command-writes-locale-default", "FIRE", "pattern_matching", "filename.write_text(new_source, encoding=encoding)", 'filename.write_text(new_source)', "R3.12"),
    Variant("replace-command-asks-the-stream-at-the-write", "SILENT", "pattern_matching", "filename.write_text(new_source, encoding=encoding)", 'filename.write_text(new_source, encoding=stream.encoding)'),
    Variant("file-read-and-written-as-UTF_8", "SILENT", "main", 'with open(filename, "w", encoding="utf-8") as stream:', 'with open(filename, "w", encoding="UTF_8") as stream:'),
    Variant("comparison-oracle-accepts-unparsable-result", "FIRE", "core", "    return new_root is not None and ast.dump(old_root) == ast.dump(new_root)\n", "    return new_root is None or ast.dump(old_root) == ast.dump(new_root)\n", "R3.4"),
    Variant("comparison-parser-hands-back-a-tree-after-failure", "FIRE", "core", "        except (SyntaxError, ValueError, RecursionError, MemoryError):\n            continue\n\n        # Whitespace inside docstrings", "        except (SyntaxError, ValueError, RecursionError, MemoryError):\n            root = ast.Module(body=[], type_ignores=[])\n\n        # Whitespace inside docstrings", "R3.4"),
    Variant("duplicates-removed-with-the-tree-of-the-old-text", "FIRE", "fixes",
            "        source = new_source\n        root = core.parse(source)\n", "        source = new_source\n", "R3.11"),
    Variant("normalised-text-handed-back-for-a-valid-input", "FIRE", "main",
            "        if core.is_valid_python(unformatted_source):\n            return unformatted_source  # It is the layout changes above that broke it\n\n", "", "R3.10"),
    Variant("semicolon-purge-crosses-line-breaks", "FIRE", "processing", "        semicolon_anti_delimiters = re.findall(r\"^[ \\t]*;[ \\t]*\", source[end:])", "        semicolon_anti_delimiters = re.findall(r\"^\\s*;\\s*\", source[end:])", "R3.9"),
    Variant("semicolon-purge-with-a-negated-class", "SILENT", "processing", "        semicolon_anti_delimiters = re.findall(r\"^[ \\t]*;[ \\t]*\", source[end:])", "        semicolon_anti_delimiters = re.findall(r\"^[^\\S\\n]*;[^\\S\\n]*\", source[end:])"),
    Variant("blank-line-patterns-precompiled", "SILENT", "fixes",
            "    new_source = re.sub(r\"(\\n\\s*){3,}\\n\", \"\\n\" * 3, source)\n", "    new_source = _MANY_BREAKS.sub(\"\\n\" * 3, source)\n",
            extra=[("fixes", "def fix_too_many_blank_lines(source: str) -> str:", "_MANY_BREAKS = re.compile(r\"(\\n\\s*){3,}\\n\")\n\n\ndef fix_too_many_blank_lines(source: str) -> str:")]),
    Variant("blank-line-pattern-eats-indentation", "FIRE", "fixes",
            "    new_source = re.sub(r\"(\\n\\s*){3,}\\n\", \"\\n\" * 3, source)\n", "    new_source = re.sub(r\"(\\n\\s*){4,}\", \"\\n\" * 3, source)\n", "R3.8"),
    Variant("blank-line-pattern-joins-lines", "FIRE", "fixes",
            "    new_source = re.sub(r\"(\\n\\s*){3,}\\n\", \"\\n\" * 3, source)\n", "    new_source = re.sub(r\"(\\n\\s*){3,}\\n\", \"\", source)\n", "R3.8"),
    Variant("scheduled-results-only-parsed", "FIRE", "processing",
            "    if core.is_compilable(source) and not core.is_compilable(new_source):\n        return source  # For example a return that ended up outside of its function\n\n    return new_source\n\n\ndef fix(", "    return new_source\n\n\ndef fix(", "R3.7"),
    Variant("compile-check-not-relative-to-the-input", "SILENT", "processing",
            "    if core.is_compilable(source) and not core.is_compilable(new_source):\n        return source  # For example a return that ended up outside of its function\n\n    return new_source\n\n\ndef fix(",
            "    if not core.is_compilable(new_source) and core.is_compilable(source):\n        return source\n\n    return new_source\n\n\ndef fix("),
    Variant("import-insertion-line-from-line-prefixes", "FIRE", "fixes",
            '    lineno = len(lines)\n    last_skipped_lineno = 0\n    for i, node in enumerate(core.parse(source).body):\n        is_docstring = i == 0 and core.match_template(node, ast.Expr(value=ast.Constant(value=str)))\n        is_future_import = isinstance(node, ast.ImportFrom) and node.module == "__future__"\n        if is_docstring or is_future_import:\n            last_skipped_lineno = node.end_lineno\n            continue\n\n        # The decorators of a definition stand above the line that node.lineno is\n        first_lineno = min([node.lineno, *(x.lineno for x in getattr(node, "decorator_list", ()))])\n        # If it shares its first line with e.g. the docstring, it is better to go after it\n        lineno = first_lineno - 1 if first_lineno > last_skipped_lineno else node.end_lineno\n        break\n    else:\n        lineno = last_skipped_lineno\n',
            '    lineno = next(i for i, line in enumerate(lines) if not line.startswith("#") and not line.startswith("from __future__ import"))\n', "R3.6",
            extra=[("fixes", '    new_source = "".join(lines)\n    if not core.is_valid_python(new_source):\n        return source\n\n    return new_source\n', "    return \"\".join(lines)\n")]),
    Variant("alter-code-actions-applied-top-down", "FIRE", "processing",
            "    for *_, action, _, value in sorted(actions, reverse=True):", "    for *_, action, _, value in sorted(actions):", "R3.5"),
    Variant("insertions-applied-top-down", "FIRE", "processing",
            "    for node in sorted(additions, key=lambda n: n.lineno, reverse=True):", "    for node in sorted(additions, key=lambda n: n.lineno):", "R3.5"),
    Variant("import-spacing-applied-top-down", "FIRE", "fixes",
            "    for replacement_range in sorted(replacements, reverse=True):", "    for replacement_range in sorted(replacements):", "R3.5"),
    Variant("import-spacing-reversed-sorted", "SILENT", "fixes",
            "    for replacement_range in sorted(replacements, reverse=True):", "    for replacement_range in reversed(sorted(replacements)):"),
    # dropping only the *first* test of _apply_rewrites keeps C03 (the second test still guards the return); it
    # exposes core.parse to an unparsable text instead, which is a crash (C04 R4.h), so that variant lives in c04.py.
    Variant("drop-second-validity-test", "FIRE", "processing",
            "    new_source = _substitute_original_fstrings(original_source, new_source)\n\n    if not core.is_valid_python(new_source):\n        return source\n",
            "    new_source = _substitute_original_fstrings(original_source, new_source)\n", "R3.1"),
    Variant("replace-nodes-guard-flipped", "FIRE", "processing",
            "    if not core.is_valid_python(new_source):\n        return source\n\n    if core.is_compilable(source) and not core.is_compilable(new_source):\n        return source  # For example a return that ended up outside of its function\n\n    return new_source\n\n\ndef _insert_nodes",
            "    if core.is_valid_python(new_source):\n        return source\n\n    if core.is_compilable(source) and not core.is_compilable(new_source):\n        return source  # For example a return that ended up outside of its function\n\n    return new_source\n\n\ndef _insert_nodes", "R3.1"),
    Variant("import-spacing-returns-unchecked", "FIRE", "fixes",
            "    if core.is_valid_python(new_source):\n        return new_source\n\n    return source\n",
            "    if core.is_valid_python(source):\n        return new_source\n\n    return source\n", "R3.1"),
    Variant("write-guard-drops-validity", "FIRE", "main",
            "    if (\n        source != initial_content\n        and (core.is_valid_python(source) or not core.is_valid_python(initial_content))\n        and (core.is_compilable(source) or not core.is_compilable(initial_content))\n    ):",
            "    if source != initial_content:", "R3.2"),
    Variant("write-guard-drops-changed", "FIRE", "main",
            "        source != initial_content\n        and (core.is_valid_python(source)",
            "        (core.is_valid_python(source)", "R3.2"),
    Variant("write-guard-validity-of-wrong-text", "FIRE", "main",
            "        and (core.is_valid_python(source) or not core.is_valid_python(initial_content))\n",
            "        and (core.is_valid_python(initial_content) or not core.is_valid_python(initial_content))\n", "R3.2"),
    Variant("pattern-cli-writes-unconditionally", "FIRE", "pattern_matching",
            "            if new_source != source:\n                filename.write_text(new_source, encoding=encoding)",
            "            if new_source:\n                filename.write_text(new_source, encoding=encoding)", "R3.2"),
    Variant("oracle-always-true", "FIRE", "core",
            "        ast.parse(source)\n        return True\n    except (SyntaxError, ValueError, RecursionError, MemoryError):\n        # ValueError: null bytes, lone surrogates. RecursionError: too deeply nested for the parser.\n        return False",
            "        ast.parse(source)\n        return True\n    except (SyntaxError, ValueError, RecursionError, MemoryError):\n        return True", "R3.4"),
    Variant("wrapper-bypasses-apply", "FIRE", "processing",
            "                source = _apply_rewrites(source, scheduled_rewrites)\n\n                if source in history:\n                    break\n\n            return source\n\n        wrapper._fix_func",
            "                for _, (_, rewrite) in scheduled_rewrites:\n                    source = _do_rewrite(source, rewrite)\n\n                if source in history:\n                    break\n\n            return source\n\n        wrapper._fix_func", "R3.1"),
    Variant("conditional-expression-return", "SILENT", "processing",
            "    if not core.is_valid_python(new_source):\n        return source\n\n    if core.is_compilable(source) and not core.is_compilable(new_source):\n        return source  # For example a return that ended up outside of its function\n\n    return new_source\n\n\ndef _insert_nodes",
            "    if core.is_compilable(source) and not core.is_compilable(new_source):\n        return source\n\n    return new_source if core.is_valid_python(new_source) else source\n\n\ndef _insert_nodes"),
    Variant("rename-new-source", "SILENT", "fixes",
            "    if core.is_valid_python(new_source):\n        return new_source\n\n    return source\n",
            "    result = new_source\n    if core.is_valid_python(result):\n        return result\n\n    return source\n"),
    Variant("hoist-test-into-local", "SILENT", "processing",
            "    if not core.is_valid_python(new_source):\n        return source\n\n    if core.is_compilable(source) and not core.is_compilable(new_source):\n        return source  # For example a return that ended up outside of its function\n\n    return new_source\n\n\ndef _insert_nodes",
            "    ok = core.is_valid_python(new_source)\n    if not ok:\n        return source\n\n    if core.is_compilable(source) and not core.is_compilable(new_source):\n        return source  # For example a return that ended up outside of its function\n\n    return new_source\n\n\ndef _insert_nodes"),
    Variant("write-guard-nested-ifs", "SILENT", "main",
            "    if (\n        source != initial_content\n        and (core.is_valid_python(source) or not core.is_valid_python(initial_content))\n        and (core.is_compilable(source) or not core.is_compilable(initial_content))\n    ):\n        with open(filename, \"w\", encoding=\"utf-8\") as stream:\n            stream.write(source)\n\n        return True\n",
            "    if source == initial_content:\n        return 0\n    if (core.is_valid_python(source) or not core.is_valid_python(initial_content)) and (core.is_compilable(source) or not core.is_compilable(initial_content)):\n        with open(filename, \"w\", encoding=\"utf-8\") as stream:\n            stream.write(source)\n\n        return True\n"),
]

META = {
    "design_ref": "DESIGN.md section 3, C03",
    "technique": "path-condition must-analysis (rollback dominance, write guard) + interprocedural safe-text summary + application-order check of in-loop text splices; regex-AST checks of whitespace editors and widened deletions; encoding symmetry of read-modify-write; node-kind check of `lineno - 1` insertion lines",
    "level_text": ("Decides on the current source that the scheduled rewrite back-ends (_apply_rewrites, _replace_nodes, "
                   "fix_import_spacing, the fix/chain wrappers) can only return their input or a text that passed "
                   "core.is_valid_python, that file writes are guarded by changed-and-(valid-or-was-invalid), and that "
                   "the validity oracle answers True only after a successful parse. It does not decide that direct "
                   "editors and layout stages emit parsable text (value-level); those stages are enumerated as the "
                   "unguarded surface."),
    "level_note": ("Trusted: CPython ast; the anchor table of rollback back-ends; the path-condition engine (facts are "
                   "only lost at joins, so a failed obligation has a syntactic path without an establishing test)."),
}
