"""C08 Preserved names survive, within a file and across files (partial, DESIGN 3/C08)."""
from __future__ import annotations

import ast
import re
from typing import Dict, List, Optional

from .. import preserve as P
from ..defuse import assignments, call_arg
from ..model import AnalysisError, Func, Program, norm, parent, short, walk_own, walk_body
from ..pathcond import PathAnalysis
from ..report import Result


def plumbing(prog: Program, res: Result, rule: str, options=("preserve",)) -> None:
    """R7.1 / R8.1: every call of a repository function with a `preserve` / `safe` parameter passes it on."""
    for fn, c, callee, opt, actual in P.plumbing_sites(prog):
        if opt not in options:
            continue
        text = f"{callee.name}(.. {opt}=..) in {short(c, 60)}"
        has_own = opt in fn.all_params or any(opt == n for n in P.bindings(fn)) or P.derived_from(fn, c, opt)
        if actual is None:
            if not callee.is_fix and callee.is_generator:
                res.ok(rule, fn.loc(c), fn.fq, text, f"helper generator called without '{opt}': its results are judged at the caller's own sites", trivial=True)
            elif opt in fn.all_params or opt in P.bindings(fn) or any(
                    isinstance(n, ast.Attribute) and n.attr == opt for n in walk_own(fn.node)):
                res.bad(rule, fn.loc(c), fn.fq, text, f"'{opt}' is available in {fn.name} but not passed to {callee.fq}: the callee runs with its default (nothing preserved / unsafe)")
            else:
                res.undecided(rule, fn.loc(c), fn.fq, text, f"caller has no '{opt}' to pass")
            continue
        ok = P.derived_from(fn, actual, opt)
        res.decide(ok, rule, fn.loc(c), fn.fq, text,
                   f"passes {norm(actual)}, derived from the caller's '{opt}'" if ok else
                   f"passes {norm(actual)}, which is not derived from the caller's own '{opt}'")
    # the positional triple handed to pool.starmap(format_file, ((filename, preserve, safe) ...))
    ff = prog.func("main", "format_files")
    target = prog.func("main", "format_file")
    for c in prog.calls_in(ff):
        if isinstance(c.func, ast.Attribute) and c.func.attr in ("starmap", "starmap_async") and len(c.args) >= 2:
            gen = c.args[1]
            elt = gen.elt if isinstance(gen, (ast.GeneratorExp, ast.ListComp)) else None
            if not (isinstance(elt, ast.Tuple)):
                res.undecided(rule, ff.loc(c), ff.fq, short(c, 60), "argument tuples of the pool call not recognised")
                continue
            for opt in options:
                if opt not in target.posparams:
                    continue
                i = target.posparams.index(opt)
                if i >= len(elt.elts):
                    res.bad(rule, ff.loc(c), ff.fq, f"format_file(.. {opt} ..) via pool", f"the worker is not given '{opt}' (tuple has {len(elt.elts)} elements)")
                    continue
                a = elt.elts[i]
                if opt == "preserve":
                    def _is_used_names_call(n):
                        r = prog.resolve_call(n.func, ff.mod, ff) if isinstance(n, ast.Call) else None
                        return bool(r and r[0] == "fn" and r[1].name.startswith("_used_names_in_file"))
                    ok = P.derived_from(ff, a, _is_used_names_call) or P.derived_from(ff, a, "preserve")
                    src = "the names used by the preserved files"
                else:
                    ok = P.derived_from(ff, a, opt)
                    src = f"the caller's '{opt}'"
                res.decide(ok, rule, ff.loc(c), ff.fq, f"format_file(.. {opt} ..) via pool: {norm(a)}",
                           f"derived from {src}" if ok else f"not derived from {src}")


def site_obligations(prog: Program, res: Result, rule: str, need_bare: bool) -> Dict[str, int]:
    stats = {"sites": 0, "consumers": 0}
    for fn in P.consumers(prog):
        stats["consumers"] += 1
        pa = PathAnalysis(prog, fn, term_hook=P.name_hook)
        unused_import_rule = any((prog.resolve_call(c.func, fn.mod, fn) or (None, None))[1] is prog.funcs.get(("fixes", "_get_unused_imports")) for c in prog.calls_in(fn))
        for s in P.find_sites(prog, fn):
            text = short(s.node, 90)
            stats["sites"] += 1
            if unused_import_rule:
                res.ok(rule, fn.loc(s.node), fn.fq, text, "an import statement chosen by NAME sets, not by a node with a .name: the preserved names are taken out of the set (R8.6)", trivial=True)
                continue
            if s.kind == "insert":
                res.ok(rule, fn.loc(s.node), fn.fq, text, "pure insertion: no definition is removed or renamed", trivial=True)
                continue
            if isinstance(s.node, ast.Yield) and isinstance(s.node.value, ast.Tuple) and isinstance(s.node.value.elts[1], ast.Call) \
                    and (prog.dotted(s.node.value.elts[1].func) or "") in ("ast.Import", "ast.ImportFrom"):
                res.ok(rule, fn.loc(s.node), fn.fq, text, "an import statement rebuilt with other names: which names it must keep for other files is decided by R8.6", trivial=True)
                continue
            if s.kind == "delegate":
                res.ok(rule, fn.loc(s.node), fn.fq, text, f"{s.why}; the callee is itself a consumer and is judged at its own sites", trivial=True)
                continue
            if s.subject is None:
                res.undecided(rule, fn.loc(s.node), fn.fq, text, "subject of the rewrite is not a variable")
                continue
            kinds = P.subject_kinds(prog, fn, s.subject, at=s.node)
            if s.kind == "unbind" and P.underscore_only(prog, fn, s):
                # a binding statement replaced by its value; the selecting template pins every bound name to the literal
                # '_': the name at stake is `_` itself (a real variable in gettext-style modules) -> `'_' not in preserve`
                test = ast.parse("'_' in preserve", mode="eval").body
                good = pa.reached(s.node) and pa.holds_at(s.node, lambda w: pa.formula(test, w, False))[0]
                res.decide(good, rule, fn.loc(s.node), fn.fq, text,
                           "the statement binds `_` only; reached only under `'_' not in preserve`" if good else
                           "the statement binds `_` and is unbound without testing `'_' in preserve`: a module whose public surface has a variable named _ "
                           "(`_ = gettext.gettext`) loses it")
                continue
            if kinds is not None and not (kinds & P.DEF_KINDS) and "str" not in kinds:
                res.ok(rule, fn.loc(s.node), fn.fq, text, f"subject kind {sorted(kinds)} is not a definition or a name (use-site rewrite)", trivial=True)
                continue
            if s.kind in ("unbind", "delete", "rewrite") and kinds is not None and not (kinds & {"FunctionDef", "AsyncFunctionDef", "ClassDef", "Name"}):
                # statements: only a site if they bind a name
                if P.underscore_only(prog, fn, s):
                    # the selecting template pins every bound name to the literal '_': the name at stake is `_` itself
                    # (a real variable in gettext-style modules), so the site needs `'_' not in preserve`
                    test = ast.parse("'_' in preserve", mode="eval").body
                    good = pa.reached(s.node) and pa.holds_at(s.node, lambda w: pa.formula(test, w, False))[0]
                    res.decide(good, rule, fn.loc(s.node), fn.fq, text,
                               "the statement binds `_` only; reached only under `'_' not in preserve`" if good else
                               "the statement binds `_` and is unbound without testing `'_' in preserve`: a module whose public surface has a variable named _ "
                               "(`_ = gettext.gettext`) loses it")
                    continue
            if s.kind in ("delete", "unbind"):
                # a STATEMENT deleted because it has no effect: core.has_side_effect calls every definition and every name
                # store an effect (C16 R16.3) - except bindings of `_`; with that hole closed by a test of '_' against
                # preserve the statement binds nothing that could be preserved
                worlds = pa.worlds_at(s.node)
                subj = s.subject
                effect_free = bool(worlds) and all(any(f[0] == "lit" and not f[2] and f"has_side_effect({subj}" in P.plain_text(f[1]) for f in w.facts) for w in worlds)
                if effect_free:
                    from ..pathcond import show
                    closed = all(any("in('_', preserve" in P.plain_text(show(f)) for f in w.facts) for w in worlds)
                    res.decide(closed, rule, fn.loc(s.node), fn.fq, text,
                               "deleted only when it has no effect (binds nothing but possibly `_`) and `_` was tested against preserve" if closed else
                               "deleted when core.has_side_effect says 'no effect', which lets bindings of `_` through; `'_' in preserve` is never consulted")
                    continue
            bare, anyform, why = P.guard_forms(pa, s)
            good = bare if need_bare else anyform
            res.decide(good, rule, fn.loc(s.node), fn.fq, text,
                       (f"{s.why}; reached only under `{s.subject}.name not in preserve`" + ("" if bare else " (qualified form)")) if good else
                       f"{s.why}, but " + ("only a qualified/derived form of the name is tested against preserve; a name that is in preserve as it stands is still affected: " if anyform and need_bare else "") + (why[0] if why else ""))
    return stats


LATER_RULES = ' Later rules: (R8.3) star imports of a preserved file record every bare name; (R8.4c) dunder functions outside classes are never unused; (R8.5) = C05 R5.5 restricted to what feeds `preserve`; (R8.6) rules deleting unused imports take `preserve`; (R8.8) the pattern that un-mangles private member names is probed with class names that end in an underscore.'


def check(prog: Program, tier: str) -> Result:
    res = Result(
        "C08",
        explanation=(
            "(R8.1) option plumbing: every call of a repository function that has a `preserve` parameter passes a value "
            "derived from the caller's own preserve (and the pool dispatch hands each worker the names used by the "
            "preserved files). (R8.2) in every rule that consumes `preserve`, each definition-affecting site - a yield "
            "that deletes a node, replaces it by a node with another name or by its value; an element added to a "
            "collection that reaches processing.remove_nodes / alter_code(removals=, replacements=) / the splice list of "
            "_fix_variable_names - is reached only under the path condition `<subject>.name not in preserve` for the "
            "BARE name (branch facts, comprehension filters, set differences, dict-keyed facts). Sites whose subject is "
            "statically a use (ast.Attribute) or whose template pins the name to `_` are exempt. (R8.3) the producer "
            "_used_names_in_file records every attribute name unconditionally and format_files unions over all other "
            "namespaces. (R8.4) the magic methods (__init__, __str__, ...) of a class are used whenever the class is: in "
            "delete_unused_functions_and_classes the map magic method -> class covers ALL classes and a magic method of a "
            "preserved class is never deleted. Not decided: completeness of the name collection for exotic access forms."),
        rule_text="instances = calls carrying `preserve`, definition-affecting sites of the preserve consumers, clauses of the producer; non-trivial = sites that can delete or rename a definition",
    )
    res.explanation += LATER_RULES
    res.trusted_base = ["CPython ast", "sa/pathcond.py", "sa/preserve.py site enumeration"]
    plumbing(prog, res, "R8.1", ("preserve",))
    stats = site_obligations(prog, res, "R8.2", need_bare=True)
    _producer(prog, res)
    _producer_star_imports(prog, res)
    _producer_other_spellings(prog, res)
    _producer_unmangling(prog, res)
    _magic_methods(prog, res)
    _magic_functions_outside_classes(prog, res)
    # R8.5: the names used by the preserved files are READ FROM DISK for every run: no memo between the files and `preserve`
    from . import c05 as _c05
    anchors = set()
    for fn in prog.funcs.values():
        if fn.mod.name != "main":
            continue
        # repository calls whose result flows (through locals) into a `preserve` argument of this function
        from ..defuse import bindings
        flows = set()
        for c in prog.calls_in(fn):
            for kw in c.keywords:
                if kw.arg == "preserve":
                    flows |= {x.id for x in ast.walk(kw.value) if isinstance(x, ast.Name)}
            r = prog.resolve_call(c.func, fn.mod, fn)
            if r and r[0] == "fn" and "preserve" in r[1].posparams:
                i = r[1].posparams.index("preserve")
                if i < len(c.args):
                    flows |= {x.id for x in ast.walk(c.args[i]) if isinstance(x, ast.Name)}
            # the worker tuples of the pool dispatch
            if isinstance(c.func, ast.Attribute) and c.func.attr in ("starmap", "map", "imap", "imap_unordered", "apply_async"):
                for a in c.args[1:]:
                    flows |= {x.id for x in ast.walk(a) if isinstance(x, ast.Name)}
        for _ in range(4):
            more = set()
            for nm in flows:
                for _s, v in bindings(fn).get(nm, []):
                    if v is not None:
                        more |= {x.id for x in ast.walk(v) if isinstance(x, ast.Name)}
            if more <= flows:
                break
            flows |= more
        for nm in flows:
            for _s, v in bindings(fn).get(nm, []):
                for x in (ast.walk(v) if v is not None else []):
                    if isinstance(x, ast.Call):
                        r = prog.resolve_call(x.func, fn.mod, fn)
                        if r and r[0] == "fn":
                            anchors.add(r[1].key)
    n_memo = _c05.adopt_memo_rule(prog, res, "R8.5", anchors,
                                  "the preserve set must reflect the preserved files as they are NOW: a memo keyed by the path hands a later run the names of an earlier version of the file")
    res.ok("R8.5", "pyrefact/main.py", "main", f"memoised functions between the preserved files and `preserve` # {len(anchors)} producer function(s) followed",
           f"{n_memo} memoised function(s) reachable, each judged above", trivial=bool(n_memo))
    _r8_6(prog, res)
    res.floors.update({"R8.1": 10, "R8.2": 8, "R8.3": 3, "R8.4": 1, "R8.6": 1, "R8.7": 3, "R8.8": 1})
    res.analysed.update(stats)
    return res


def _r8_6(prog: Program, res: Result) -> None:
    """An import BINDS a name in the module too: `from lib import join` in a preserved file works because lib imports join,
    used there or not (re-exports, optional-import fallbacks).  A rule on the formatting path that deletes import statements
    because their names are 'unused' in this module must take `preserve` and take the preserved names out of the unused
    ones.  Instance: every rule generator reachable from format_code that computes unused imports (calls the unused-import
    analysis) and yields deletions."""
    from ..defuse import bindings
    analysis = prog.funcs.get(("fixes", "_get_unused_imports"))
    if analysis is None:
        raise AnalysisError("anchor fixes._get_unused_imports not found")
    n = 0
    for fn in prog.funcs.values():
        if not fn.is_fix:
            continue
        calls = [c for c in prog.calls_in(fn) if (prog.resolve_call(c.func, fn.mod, fn) or (None, None))[1] is analysis]
        deletes = [y for y in walk_own(fn.node) if isinstance(y, ast.Yield) and isinstance(y.value, ast.Tuple) and len(y.value.elts) >= 2
                   and isinstance(y.value.elts[1], ast.Constant) and y.value.elts[1].value is None]
        if not calls or not deletes:
            continue
        n += 1
        has_param = "preserve" in fn.all_params
        # the unused set is reduced by preserve: the statement that binds the result of the analysis, or a later one on the same name
        reduced = False
        for c in calls:
            st = c
            while st is not None and not isinstance(st, ast.stmt):
                st = parent(st)
            texts = [norm(st)]
            if isinstance(st, ast.Assign) and isinstance(st.targets[0], ast.Name):
                nm = st.targets[0].id
                for x in walk_own(fn.node):
                    if isinstance(x, (ast.Assign, ast.AugAssign)) and nm in {t.id for t in ast.walk(x) if isinstance(t, ast.Name)} and x is not st:
                        texts.append(norm(x))
                    if isinstance(x, ast.comprehension) and nm in norm(x.iter):
                        texts.append(" ".join(norm(i) for i in x.ifs))
            reduced = reduced or any(("preserve" in t and ("-" in t or "difference" in t or "not in" in t)) for t in texts)
        ok = has_param and reduced
        res.decide(ok, "R8.6", fn.loc(), fn.fq, f"{fn.name} # deletes the imports the module does not use",
                   "takes `preserve` and keeps the imports whose names are preserved" if ok else
                   ("has no `preserve` parameter" if not has_param else "does not take the preserved names out of the unused imports")
                   + ": a name another file imports FROM this module (`from lib import join`, `lib.json`) is deleted here because this module does not use it itself")
    if n == 0:
        raise AnalysisError("R8.6: no rule deleting unused imports found")
    # star imports: a rule that narrows `from m import *` to the names THIS module uses (or removes it) takes away every name the
    # module only passes on; it must take `preserve`, count the preserved names among the wanted ones, and be called with it
    m = 0
    for fn in prog.funcs.values():
        if not fn.is_fix:
            continue
        star = any(isinstance(c, ast.Call) and norm(c.func) == "ast.alias" and any(k.arg == "name" and isinstance(k.value, ast.Constant) and k.value.value == "*" for k in c.keywords)
                   for c in walk_own(fn.node))
        rebuilds = [y for y in walk_own(fn.node) if isinstance(y, ast.Yield) and isinstance(y.value, ast.Tuple) and len(y.value.elts) >= 2
                    and ((isinstance(y.value.elts[1], ast.Call) and norm(y.value.elts[1].func) == "ast.ImportFrom") or (isinstance(y.value.elts[1], ast.Constant) and y.value.elts[1].value is None))]
        if not star or not rebuilds:
            continue
        m += 1
        has_param = "preserve" in fn.all_params
        wanted = False
        for lp in walk_own(fn.node):
            if isinstance(lp, (ast.For, ast.AsyncFor)) and any(isinstance(c, ast.Call) and norm(c.func).endswith("trace_origin") for c in ast.walk(lp)):
                texts = [norm(lp.iter)] + [norm(v) for x in ast.walk(lp.iter) if isinstance(x, ast.Name) for _s, v in bindings(fn).get(x.id, []) if v is not None]
                wanted = wanted or any("preserve" in t for t in texts)
        # ... and the chain it is part of is called with preserve
        called_with = True
        for host in prog.funcs.values():
            for a in walk_own(host.node):
                if isinstance(a, ast.Assign) and isinstance(a.value, ast.Call) and norm(a.value.func).endswith("chain") and fn.node.name in norm(a.value) and isinstance(a.targets[0], ast.Name):
                    chain_name = a.targets[0].id
                    for c in prog.calls_in(host):
                        if isinstance(c.func, ast.Name) and c.func.id == chain_name:
                            called_with = called_with and (len(c.args) > 1 or any(k.arg == "preserve" for k in c.keywords))
        ok = has_param and wanted and called_with
        res.decide(ok, "R8.6", fn.loc(), fn.fq, f"{fn.name} # narrows or removes star imports",
                   "takes `preserve`, traces the preserved names as well, and is called with it" if ok else
                   ("has no `preserve` parameter" if not has_param else "does not trace the preserved names" if not wanted else "its chain is called without `preserve`")
                   + ": `from os.path import *` in a library becomes `from os.path import join` (what the library uses itself), and `from lib import basename` in a "
                   "preserved client fails")
    if m == 0:
        res.undecided("R8.6", "pyrefact/tracing.py:0", "tracing", "rules that narrow star imports", "none found")


def _magic_methods(prog: Program, res: Result) -> None:
    """R8.4: nobody calls __init__ / __str__ / __eq__ by name; they are used through the class.  A class whose name is
    preserved is used from another file, so its magic methods must survive with it.  Decided on
    delete_unused_functions_and_classes: (a) the loop that maps magic methods to their class iterates all classes, not
    a collection filtered by `not in preserve`; (b) the deletion of a function that has such a class is reached only
    when that class's name is not in preserve."""
    fn = prog.funcs.get(("fixes", "delete_unused_functions_and_classes"))
    if fn is None:
        raise AnalysisError("anchor fixes.delete_unused_functions_and_classes not found")
    # the loop that attributes magic methods to classes: is_magic_method applied to the BODY of the loop variable
    loops = [l for l in walk_own(fn.node) if isinstance(l, ast.For) and isinstance(l.target, ast.Name)
             and any(isinstance(x, (ast.Call, ast.For, ast.comprehension)) and "is_magic_method" in norm(x) and f"{l.target.id}.body" in norm(x) for x in ast.walk(l))]
    if not loops:
        res.undecided("R8.4", fn.loc(), fn.fq, "magic methods of classes", "no loop using parsing.is_magic_method found")
        return
    loop = loops[0]
    it = loop.iter
    filtered = None
    if isinstance(it, ast.Name):
        # is the collection filled only under `X.name not in preserve`?
        for c in walk_own(fn.node):
            if isinstance(c, ast.Call) and isinstance(c.func, ast.Attribute) and c.func.attr in ("append", "add") and norm(c.func.value) == it.id:
                a = parent(c)
                while a is not None and a is not fn.node:
                    if isinstance(a, ast.If) and "not in preserve" in norm(a.test):
                        filtered = norm(a.test)
                    a = parent(a)
        for _st, v in assignments(fn, it.id):
            if v is not None and "not in preserve" in norm(v):
                filtered = norm(v)
    all_classes = filtered is None
    res.decide(all_classes, "R8.4", fn.loc(loop), fn.fq, f"classes whose magic methods are attributed to them: {short(it, 50)}",
               "all classes of the module" if all_classes else
               f"only classes with `{filtered}`: the magic methods of a PRESERVED class belong to no class, count as unused functions and are deleted")
    # (b) guard at the deletion
    pa = PathAnalysis(prog, fn)
    ys = [y for y in walk_own(fn.node) if isinstance(y, ast.Yield) and isinstance(y.value, ast.Tuple) and len(y.value.elts) >= 2
          and isinstance(y.value.elts[1], ast.Constant) and y.value.elts[1].value is None]
    lookup_vars = set()
    for n in walk_own(fn.node):
        if isinstance(n, ast.NamedExpr) and isinstance(n.target, ast.Name) and ".get(" in norm(n.value):
            lookup_vars.add(n.target.id)
        if isinstance(n, ast.Assign) and isinstance(n.targets[0], ast.Name) and ".get(" in norm(n.value) and "constructor" in norm(n.value):
            lookup_vars.add(n.targets[0].id)
    for y in ys:
        loop_y = parent(y)
        while loop_y is not None and not isinstance(loop_y, ast.For):
            loop_y = parent(loop_y)
        if loop_y is None or not any(isinstance(x, ast.Name) and x.id in lookup_vars for x in ast.walk(loop_y)):
            continue
        ok = False
        for v in lookup_vars:
            # a statement `if <v>.name in preserve: continue` (or the negative nesting) on the way to the yield
            for i in ast.walk(loop_y):
                if isinstance(i, ast.If) and norm(i.test) == f"{v}.name in preserve" and i.body and isinstance(i.body[-1], (ast.Continue, ast.Return)):
                    ok = True
                if isinstance(i, ast.If) and norm(i.test) == f"{v}.name not in preserve" and y in list(ast.walk(i)):
                    ok = True
        res.decide(ok, "R8.4", fn.loc(y), fn.fq, f"deletion of a function that is the magic method of a class: {short(y, 40)}",
                   "skipped when the class is preserved" if ok else
                   "a magic method is deleted when its class has no use IN THIS FILE, although the class is preserved because another file uses it: "
                   "the client's Greeter() loses __init__ / __str__")


def _magic_functions_outside_classes(prog: Program, res: Result) -> None:
    """R8.4 (c): a dunder function that belongs to NO class - a module-level `__getattr__` / `__dir__` (PEP 562) - is called by
    the import system, never by name: `lib.lazy_thing` and `from lib import lazy_thing` in a preserved file go through it.
    Every deletion of a function for lack of uses is reached only when the function has a class (whose uses count) or is
    known not to be a magic method."""
    from ..pathcond import plain
    fn = prog.funcs.get(("fixes", "delete_unused_functions_and_classes"))
    pa = PathAnalysis(prog, fn)
    n = 0
    for y in walk_own(fn.node):
        if not (isinstance(y, ast.Yield) and isinstance(y.value, ast.Tuple) and len(y.value.elts) >= 2 and isinstance(y.value.elts[0], ast.Name)
                and isinstance(y.value.elts[1], ast.Constant) and y.value.elts[1].value is None):
            continue
        v = y.value.elts[0].id
        lp = parent(y)
        while lp is not None and not isinstance(lp, ast.For):
            lp = parent(lp)
        # only the loop over FUNCTION definitions (the collection is filled from a walk for FunctionDef)
        src = " ".join(norm(x) for _s, x in assignments(fn, norm(lp.iter)) if x is not None) if lp is not None else ""
        fills = [norm(l_.iter) for l_ in walk_own(fn.node) if isinstance(l_, ast.For) and lp is not None
                 and any(isinstance(c, ast.Call) and isinstance(c.func, ast.Attribute) and c.func.attr in ("append", "add") and norm(c.func.value) == norm(lp.iter) for c in ast.walk(l_))]
        if "FunctionDef" not in src + " ".join(fills):
            continue
        n += 1
        worlds = pa.worlds_at(y)
        ok = bool(worlds)
        for w in worlds:
            tok = w.token(v).split("#")[0]
            has_class = any(f[0] == "lit" and f[2] and ".get(" in plain(f[1]) and tok in plain(f[1]) for f in w.facts) or \
                any(f[0] == "lit" and f[2] and not any(ch in plain(f[1]) for ch in "(.=<>") and plain(f[1]) != tok for f in w.facts if False)
            not_magic = any(f[0] == "lit" and not f[2] and "is_magic_method(" in plain(f[1]) and tok in plain(f[1]) for f in w.facts)
            # `parent_class := D.get(def_node)` true is recorded on the walrus target
            walrus_true = any(f[0] == "lit" and f[2] and plain(f[1]).isidentifier() and any(
                isinstance(x, ast.NamedExpr) and isinstance(x.target, ast.Name) and x.target.id == plain(f[1]) and ".get(" in norm(x.value) for x in ast.walk(lp)) for f in w.facts)
            ok = ok and (has_class or walrus_true or not_magic)
        res.decide(ok, "R8.4", fn.loc(y), fn.fq, f"{short(y, 40)} # deletion of a function without uses",
                   "reached only for methods of a class or for functions that are not magic" if ok else
                   "a dunder function that belongs to no class (module-level __getattr__ / __dir__, PEP 562) is deleted for lack of uses: the import system calls it, "
                   "`from lib import lazy_thing` in the preserved file stops resolving")
    if n == 0:
        res.undecided("R8.4", fn.loc(), fn.fq, "deletion of a function without uses", "deletion site not found")


def _producer_other_spellings(prog: Program, res: Result) -> None:
    """R8.7: other ways a preserved file SPELLS a name of the library, none of them a Name or Attribute node: the keyword of a
    call (`Point(xCoord=1)` names a parameter / dataclass field), the keyword of a class pattern (`case Point(xCoord=1)`),
    and the mangled form of a private member (`obj._Engine__step` is `__step` inside class Engine).  The producer of the
    preserve set records each of them (recording = the value reaches an append / extend / add of the collection that is
    returned)."""
    fn = prog.func("main", "_used_names_in_file")
    recorded = []
    for c in prog.calls_in(fn):
        if isinstance(c.func, ast.Attribute) and c.func.attr in ("append", "extend", "add", "update") and c.args:
            recorded.append(c.args[0])
    def some(pred) -> Optional[ast.AST]:
        for r in recorded:
            if pred(r):
                return r
        return None
    kw = some(lambda r: any(isinstance(x, ast.Attribute) and x.attr == "arg" for x in ast.walk(r)) and "ast.keyword" in norm(r))
    mc = some(lambda r: any(isinstance(x, ast.Attribute) and x.attr == "kwd_attrs" for x in ast.walk(r)))
    mg = some(lambda r: any(isinstance(x, ast.Attribute) and x.attr == "attr" for x in ast.walk(r)) and "__" in norm(r)
              and any(isinstance(x, (ast.Subscript, ast.Call)) for x in ast.walk(r)) and not isinstance(r, ast.Attribute))
    for what, hit, why in (
            ("keyword names of calls", kw, "`Point(xCoord=1)` in a preserved file: the library's field xCoord is renamed to x_coord, the client gets `unexpected keyword argument`"),
            ("keyword names of class patterns", mc, "`case Point(xCoord=1)` in a preserved file: the attribute the pattern reads is renamed in the library"),
            ("un-mangled private member names", mg, "`obj._Engine__step()` in a preserved file: the rules compare the definition's own name `__step` with the preserve set, find nothing, "
                                                    "and rename or delete the method")):
        res.decide(hit is not None, "R8.7", fn.loc(hit) if hit is not None else fn.loc(), fn.fq, f"{what} # recorded by the producer of the preserve set",
                   f"recorded: {short(hit, 60)}" if hit is not None else why)



MANGLING_PROBES = ("Engine", "Engine_", "_Engine", "Type__")


def _producer_unmangling(prog: Program, res: Result) -> None:
    """R8.8: python spells the private member `__step` of class C as `_` + C without its leading underscores + `__step` - for a class
    whose name ENDS in an underscore (`Engine_`, `Type_`: the usual way round a keyword or builtin) that is `_Engine___step`, three
    underscores in a row.  The producer finds the member name with a pattern (`re.finditer(P, <attr>)`, recording `<attr>[m.start():]`);
    the pattern read from the source is applied (standard library `re`, nothing of pyrefact runs) to the mangled spelling of `__step`
    in the classes MANGLING_PROBES: `__step` must be among the recorded tails for each of them."""
    fn = prog.func("main", "_used_names_in_file")
    n = 0
    for c in prog.calls_in(fn):
        if not (norm(c.func) in ("re.finditer",) and len(c.args) == 2 and isinstance(c.args[0], ast.Constant) and isinstance(c.args[0].value, str)
                and isinstance(c.args[1], ast.Attribute) and c.args[1].attr == "attr"):
            continue
        comp = parent(parent(c)) if isinstance(parent(c), ast.comprehension) else None
        elt = getattr(comp, "elt", None)
        if not (isinstance(elt, ast.Subscript) and isinstance(elt.slice, ast.Slice) and elt.slice.upper is None and "start" in norm(elt.slice.lower or ast.Constant(value=""))):
            continue
        n += 1
        try:
            pat = re.compile(c.args[0].value)
        except re.error as e:
            res.bad("R8.8", fn.loc(c), fn.fq, f"{short(c, 60)} # the pattern that finds the member name in a mangled one", f"the pattern does not compile: {e}")
            continue
        missed = []
        for cls in MANGLING_PROBES:
            attr = "_" + cls.lstrip("_") + "__step"
            if "__step" not in {attr[m.start():] for m in pat.finditer(attr)}:
                missed.append(f"{cls}: obj.{attr}")
        res.decide(not missed, "R8.8", fn.loc(c), fn.fq, f"{short(c, 60)} # the pattern that finds the member name in a mangled one",
                   f"finds `__step` in its mangled spelling for the classes {list(MANGLING_PROBES)}" if not missed else
                   f"does not find `__step` in {missed}: the client's use is not recorded, the method is not in the preserve set and is deleted or renamed in the library")
    if n == 0:
        res.undecided("R8.8", fn.loc(), fn.fq, "the pattern that finds the member name in a mangled one", "no `<attr>[m.start():] for m in re.finditer(<constant>, <attr>)` in the producer")


def _producer_star_imports(prog: Program, res: Result) -> None:
    """R8.3 (star imports): after `from lib import *` every bare name of the preserved file that it does not define itself may
    come from lib.  The producer only records bare names that are IMPORTED names - for a star import that set holds just '*'.
    Obligation: the producer has a branch for the alias '*' under which bare names (`.id` of Name nodes) are recorded without
    the imported-names filter."""
    fn = prog.func("main", "_used_names_in_file")
    star_tests = [t for t in ast.walk(fn.node) if isinstance(t, ast.Compare) and any(isinstance(c, ast.Constant) and c.value == "*" for c in [t.left] + t.comparators)]
    ok = False
    where = fn.node
    for t in star_tests:
        # the statement(s) governed by the test
        host = parent(t)
        while host is not None and not isinstance(host, (ast.If, ast.comprehension)) and host is not fn.node:
            host = parent(host)
        region = host.body if isinstance(host, ast.If) else []
        for st in region:
            for c in ast.walk(st):
                if isinstance(c, ast.Call) and isinstance(c.func, ast.Attribute) and c.func.attr in ("extend", "update", "append", "add") and c.args:
                    txt = norm(c.args[0])
                    if ".id" in txt and "ast.Name" in txt and " if " not in txt.split(" for ", 1)[-1]:
                        ok, where = True, c
    res.decide(ok, "R8.3", fn.loc(where), fn.fq, "bare names after a star import",
               "with `from m import *` all bare names of the file are recorded" if ok else
               "after `from lib import *` the names the preserved file uses bare are not recorded (the imported names are just '*'): the library loses every function, "
               "class and variable the client uses through the star import")


def _producer(prog: Program, res: Result) -> None:
    fn = prog.func("main", "_used_names_in_file")
    # names.append(node.attr) must depend on nothing but isinstance(node, ast.Attribute)
    hits = [n for n in walk_own(fn.node) if isinstance(n, ast.Call) and isinstance(n.func, ast.Attribute) and n.func.attr in ("append", "add")
            and n.args and isinstance(n.args[0], ast.Attribute) and n.args[0].attr == "attr"]
    if not hits:
        res.bad("R8.3", fn.loc(), fn.fq, "attribute names", "attribute names used by preserved files are no longer collected")
    for h in hits:
        ok = True
        child = h
        a = parent(h)
        while a is not None and a is not fn.node:
            if isinstance(a, ast.If):
                t = norm(a.test)
                in_body = any(child is s or any(child is x for x in ast.walk(s)) for s in a.body)
                if in_body:
                    # positive condition: nothing but "node is an attribute"
                    if not ("isinstance(" in t and "Attribute" in t and " and " not in t):
                        ok = False
                else:
                    # negative condition: must be false for every attribute node anyway
                    subj = norm(h.args[0].value)
                    if f"isinstance({subj}, ast.Name)" not in t.split(" or ")[0] or " or " in t:
                        ok = False
            child = a
            a = parent(a)
        res.decide(ok, "R8.3", fn.loc(h), fn.fq, norm(h), "every attribute name of a preserved file is recorded" if ok else "recording of attribute names is conditional on more than the node being an attribute")
    ret = [r for r in walk_own(fn.node) if isinstance(r, ast.Return)]
    walked = any(isinstance(n, ast.Call) and prog.dotted(n.func) == "core.walk" and "ast.Attribute" in norm(n) and "ast.Name" in norm(n) for n in walk_own(fn.node))
    res.decide(walked, "R8.3", fn.loc(), fn.fq, "walks names and attributes", "all Name and Attribute nodes are visited" if walked else "the walk no longer covers ast.Name and ast.Attribute")
    # from-imports: the name to keep in the OTHER file is alias.name, whatever the preserved file calls it, used or not
    orig = False
    for n in walk_own(fn.node):
        if isinstance(n, ast.Call) and isinstance(n.func, ast.Attribute) and n.func.attr in ("append", "extend", "add", "update") and n.args:
            arg = n.args[0]
            txt = norm(arg)
            if ".name" in txt and "asname" not in txt.replace(".asname is None", ""):
                # alias.name recorded; the enclosing loops must range over from-imports / aliases without a use test
                conds = []
                a = parent(n)
                while a is not None and a is not fn.node:
                    if isinstance(a, ast.If):
                        conds.append(norm(a.test))
                    a = parent(a)
                src = " ".join(norm(l.iter) for l in walk_own(fn.node) if isinstance(l, ast.For) and n in list(ast.walk(l)))
                src += " " + " ".join(norm(g.iter) for g in ast.walk(arg) if isinstance(g, ast.comprehension))
                # an early `continue` in front of the recording statement is a condition as well (`if node.module is None: continue`
                # drops `from . import name as alias`)
                skipped = False
                for l in walk_own(fn.node):
                    if isinstance(l, ast.For) and n in list(ast.walk(l)):
                        for st_ in l.body:
                            if n in list(ast.walk(st_)):
                                break
                            if isinstance(st_, ast.If) and any(isinstance(x, (ast.Continue, ast.Break, ast.Return)) for x in ast.walk(st_)):
                                skipped = True
                if ("ImportFrom" in src or ".names" in src) and not any(re.search(r"\\b(not )?in\\b", c) for c in conds) and not skipped:
                    orig = True
    res.decide(orig, "R8.3", fn.loc(), fn.fq, "names taken by from-import",
               "the original name (alias.name) of every from-import alias of a preserved file is recorded" if orig else
               "only names that the preserved file USES, under the name it BINDS, are recorded: `from lib import helper as h` preserves `h` instead of `helper`, "
               "and an import that is only re-exported preserves nothing - the import in the preserved file then fails")
    ff = prog.func("main", "format_files")
    def _is_used_names_call(n):
        r = prog.resolve_call(n.func, ff.mod, ff) if isinstance(n, ast.Call) else None
        return bool(r and r[0] == "fn" and r[1].name.startswith("_used_names_in_file"))
    comp = [n for n in walk_own(ff.node) if isinstance(n, ast.DictComp) and P.derived_from(ff, n.value, _is_used_names_call)]
    ok = False
    if comp:
        t = norm(comp[0].value)
        ok = "union" in t and "!=" in t and "_namespace_name(" in t
    res.decide(ok, "R8.3", ff.loc(comp[0]) if comp else ff.loc(), ff.fq, "per-file preserve set",
               "union of the names used by every namespace other than the file's own" if ok else "per-file preserve set is no longer the union over all other namespaces")


# ---------------------------------------------------------------------------------------------- self-test
from ..selftest import Variant  # noqa: E402

VARIANTS = [
    Variant("member-name-needs-a-letter-before-the-underscores", "FIRE", "main",
            "re.finditer(r\"(?<=.)__(?=[^_])\", node.attr)", "re.finditer(r\"(?<=[^_])__(?=[^_])\", node.attr)", "R8.8"),
    Variant("member-name-found-anywhere-but-at-the-start", "SILENT", "main",
            "re.finditer(r\"(?<=.)__(?=[^_])\", node.attr)", "re.finditer(r\"(?<!^)__(?=[^_])\", node.attr)"),
    Variant("member-name-with-the-extra-underscores-of-the-class", "FIRE", "main",
            "re.finditer(r\"(?<=.)__(?=[^_])\", node.attr)", "re.finditer(r\"(?<=[^_])_*?__(?=[^_])\", node.attr)", "R8.8"),
    Variant("star-imports-narrowed-without-the-preserved-names", "FIRE", "tracing", "    for name in sorted(undefined_names | passed_on_names | shadowed_builtins):", "    for name in sorted(undefined_names | shadowed_builtins):", "R8.6"),
    Variant("single-run-chain-called-without-preserve", "FIRE", "main", "    source = single_run_fixes(source, preserve=preserve)", "    source = single_run_fixes(source)", "R8.6"),
    Variant("keyword-names-not-recorded", "FIRE", "main", "    names.extend(node.arg for node in core.walk(ast_root, ast.keyword) if node.arg)\n", "", "R8.7"),
    Variant("class-pattern-keywords-not-recorded", "FIRE", "main", "            names.extend(node.kwd_attrs)\n", "            pass\n", "R8.7"),
    Variant("mangled-names-not-unmangled", "FIRE", "main", "            names.extend(\n                node.attr[match.start() :]\n                for match in re.finditer(r\"(?<=.)__(?=[^_])\", node.attr)  # _Engine___step in Engine_\n                if node.attr.startswith(\"_\") and not node.attr.endswith(\"__\")\n            )\n", "", "R8.7"),
    Variant("star-import-of-the-client-ignored", "FIRE", "main",
            "        if any(alias.name == \"*\" for alias in node.names):\n            # Whatever is not defined here may come from the star import\n            names.extend(name.id for name in core.walk(ast_root, ast.Name))\n", "", "R8.3"),
    Variant("module-level-dunder-counts-as-unused", "FIRE", "fixes", "        elif parsing.is_magic_method(def_node):\n            continue  # A module level __getattr__ or __dir__ is called by the import system\n", "", "R8.4"),
    Variant("unused-imports-ignore-preserve", "FIRE", "fixes", "    unused_imports = set(_get_unused_imports(root)) - set(preserve)\n", "    unused_imports = set(_get_unused_imports(root))\n", "R8.6"),
    Variant("unused-imports-called-without-preserve", "FIRE", "main", "            source = fixes.remove_unused_imports(source, preserve=preserve)", "            source = fixes.remove_unused_imports(source)", "R8.1"),
    Variant("from-import-aliases-not-recorded", "FIRE", "main",
            "    for node in core.walk(ast_root, ast.ImportFrom):\n        # What is imported from another file must keep its name over there,\n        # whatever it is called here and whether or not it is used here.\n        names.extend(alias.name for alias in node.names)\n", "", "R8.3"),
    Variant("from-import-aliases-recorded-by-bound-name", "FIRE", "main",
            "        names.extend(alias.name for alias in node.names)\n", "        names.extend(alias.asname or alias.name for alias in node.names)\n", "R8.3"),
    Variant("magic-methods-of-preserved-classes-unattributed", "FIRE", "fixes",
            "    constructors = collections.defaultdict(set)\n    for node in core.walk(root, ast.ClassDef):\n", "    constructors = collections.defaultdict(set)\n    for node in classdefs:\n", "R8.4"),
    Variant("magic-method-of-preserved-class-deleted", "FIRE", "fixes",
            "            if parent_class.name in preserve:\n                continue  # The class is used from elsewhere, and its magic methods with it\n", "", "R8.4"),
    Variant("delete-unused-ignores-preserve", "FIRE", "fixes",
            "        if node.name not in preserve and node not in preserved_class_funcdefs:\n            funcdefs.append(node)",
            "        if node not in preserved_class_funcdefs:\n            funcdefs.append(node)", "R8.2"),
    Variant("duplicate-functions-delete-preserved", "FIRE", "fixes", "        for node in funcdefs - preserved_nodes:\n            delete.add(node)", "        for node in funcdefs:\n            delete.add(node)", "R8.2"),
    Variant("undefine-drops-preserve-test", "FIRE", "fixes", "            name.id not in preserve\n            and name.id != \"_\"", "            name.id != \"_\"", "R8.2"),
    Variant("align-test-flipped", "FIRE", "fixes",
            "                if node.id == substitute:\n                    continue\n                if node.id in preserve:\n                    continue\n                replacement = ast.Name(id=substitute)",
            "                if node.id == substitute:\n                    continue\n                if node.id not in preserve:\n                    continue\n                replacement = ast.Name(id=substitute)", "R8.2"),
    Variant("multi-run-forgets-preserve", "FIRE", "main", "    source = fixes.delete_unused_functions_and_classes(source, preserve=preserve)", "    source = fixes.delete_unused_functions_and_classes(source)", "R8.1"),
    Variant("format-code-forgets-preserve", "FIRE", "main", "        source = fixes.align_variable_names_with_convention(source, preserve=preserve)", "        source = fixes.align_variable_names_with_convention(source)", "R8.1"),
    Variant("worker-gets-empty-preserve", "FIRE", "main", "                    (filename, filename_preserve[filename], safe)", "                    (filename, frozenset(), safe)", "R8.1"),
    Variant("fix-variable-names-ignores-preserve", "FIRE", "fixes", "            if node.id != substitute and node.id not in preserve | names_left_alone:", "            if node.id != substitute and node.id not in names_left_alone:", "R8.2"),
    Variant("attribute-names-only-for-imports", "FIRE", "main",
            "            names.append(node.attr)\n            # obj._Engine__step is how code outside of the class Engine spells its private __step\n",
            "            if isinstance(node.value, ast.Name) and node.value.id in imported_names:\n                names.append(node.attr)\n", "R8.3"),
    Variant("staticmethod-bare-test-removed", "FIRE", "object_oriented", "            if funcdef.name in attributes_to_preserve or funcdef.name in preserve:", "            if funcdef.name in attributes_to_preserve:", "R8.2"),
    Variant("guard-as-enclosing-if", "SILENT", "fixes",
            "                if node.id == substitute:\n                    continue\n                if node.id in preserve:\n                    continue\n                replacement = ast.Name(id=substitute)",
            "                if node.id == substitute or node.id in preserve:\n                    continue\n                replacement = ast.Name(id=substitute)"),
    Variant("prefilter-with-comprehension", "SILENT", "fixes",
            "    for node in core.walk(root, ast.ClassDef):\n        if node.name not in preserve:\n            classdefs.append(node)",
            "    classdefs = [node for node in core.walk(root, ast.ClassDef) if node.name not in preserve]"),
    Variant("preserve-passed-positionally", "SILENT", "main", "    source = fixes.delete_unused_functions_and_classes(source, preserve=preserve)", "    source = fixes.delete_unused_functions_and_classes(source, preserve)"),
]

META = {
    "design_ref": "DESIGN.md section 3, C08",
    "technique": "call-graph option plumbing + path-condition must-analysis of every definition-affecting site (bare-name preserve guard); producer census of the spellings a client can use, with the un-mangling pattern read from the source and probed on spelled-out class names (stdlib re)",
    "level_text": ("Decides on the current source that `preserve` is handed down every call chain from the entry points to "
                   "the rules, and that every site at which a rule can delete or rename a definition is reached only under "
                   "a test that the definition's bare name is not in `preserve`. It does not decide that the collection of "
                   "used names from preserved files is complete for every access form."),
    "level_note": "Trusted: CPython ast; the path-condition engine (facts are only lost at joins); the site enumeration of sa/preserve.py (yields of @processing.fix rules with a preserve parameter, collections reaching remove_nodes / alter_code / the splice list).",
}
