"""C15 Compile-time constant evaluation agrees with Python (partial, DESIGN 3/C15)."""
from __future__ import annotations

import ast
import re as _re_mod
from typing import Dict, List, Optional, Tuple

from ..defuse import assignments, bindings
from ..evaluator import SIGNAL, Evaluator, caught, covers, enclosing_tries, handler_names, handler_raises_signal
from ..model import AnalysisError, AstClass, Func, Program, Sym, Unresolvable, norm, parent, short, walk_own, walk_body
from ..pathcond import PathAnalysis, plain
from ..report import Result

# reference: python operator function implementing `left OP right` for each ast operator class
OPERATOR_REF = {
    "Eq": "eq", "NotEq": "ne", "Lt": "lt", "LtE": "le", "Gt": "gt", "GtE": "ge", "Is": "is_", "IsNot": "is_not",
    "Add": "add", "Sub": "sub", "Mult": "mul", "Div": "truediv", "FloorDiv": "floordiv", "Mod": "mod", "Pow": "pow",
    "LShift": "lshift", "RShift": "rshift", "BitOr": "or_", "BitXor": "xor", "BitAnd": "and_", "MatMult": "matmul",
}
# `In`/`NotIn` have no same-order operator function (operator.contains swaps its operands)
BINOP_CLASSES = {ast.Add: "Add", ast.Sub: "Sub", ast.Mult: "Mult", ast.Div: "Div", ast.FloorDiv: "FloorDiv", ast.Mod: "Mod",
                 ast.Pow: "Pow", ast.LShift: "LShift", ast.RShift: "RShift", ast.BitOr: "BitOr", ast.BitXor: "BitXor",
                 ast.BitAnd: "BitAnd", ast.MatMult: "MatMult"}
CMP_CLASSES = {ast.Eq: "Eq", ast.NotEq: "NotEq", ast.Lt: "Lt", ast.LtE: "LtE", ast.Gt: "Gt", ast.GtE: "GtE", ast.Is: "Is",
               ast.IsNot: "IsNot", ast.In: "In", ast.NotIn: "NotIn"}

# builtins with effects, process control, dynamic code, iterator state, or results that depend on the process
IMPURE = {"print", "input", "open", "exec", "eval", "compile", "exit", "quit", "breakpoint", "help", "copyright",
          "credits", "license", "__import__", "__build_class__", "setattr", "delattr", "globals", "locals", "vars", "dir",
          "id", "hash", "next", "aiter", "anext", "super", "memoryview"}


def lambda_semantics(lam: ast.Lambda) -> Optional[Tuple[str, int, int]]:
    """lambda a, b: a OP b  ->  (OP class name, index of left param, index of right param)"""
    params = [a.arg for a in lam.args.args]
    if len(params) != 2:
        return None
    b = lam.body
    if isinstance(b, ast.Compare) and len(b.ops) == 1 and isinstance(b.left, ast.Name) and isinstance(b.comparators[0], ast.Name):
        name = CMP_CLASSES.get(type(b.ops[0]))
        l, r = b.left.id, b.comparators[0].id
    elif isinstance(b, ast.BinOp) and isinstance(b.left, ast.Name) and isinstance(b.right, ast.Name):
        name = BINOP_CLASSES.get(type(b.op))
        l, r = b.left.id, b.right.id
    elif isinstance(b, ast.UnaryOp) and isinstance(b.op, ast.Not) and isinstance(b.operand, ast.Compare) and len(b.operand.ops) == 1 \
            and isinstance(b.operand.left, ast.Name) and isinstance(b.operand.comparators[0], ast.Name):
        inner = CMP_CLASSES.get(type(b.operand.ops[0]))
        name = {"In": "NotIn", "NotIn": "In", "Is": "IsNot", "IsNot": "Is", "Eq": "NotEq", "NotEq": "Eq"}.get(inner)
        l, r = b.operand.left.id, b.operand.comparators[0].id
    else:
        return None
    if name is None or l not in params or r not in params:
        return None
    return name, params.index(l), params.index(r)


_PA: Dict = {}


def _pa(prog: Program, f: Func) -> PathAnalysis:
    k = (id(prog), f.key)
    if k not in _PA:
        _PA[k] = PathAnalysis(prog, f)
    return _PA[k]


LATER_RULES = ' Later rules: evaluator membership by primitives, not by name; (R15.8) no memo keyed by evaluated values; (R15.9) no evaluated set reaches a call that can see its order. (R15.10) a false comprehension condition kills the whole comprehension, and only when nothing with an effect or of unknown value is evaluated before it. (R15.11) dead code is removed only after it was searched for yield. (R15.12) every primitive application of the evaluator is fenced by a cost predicate over its operands. (R15.13) evaluated values are never remembered beyond the evaluation (single-use iterators, mutable containers). (R15.14) the calls exempt from the set-order fence are order-blind by a reference table. (R15.15) the operator applied to evaluated values is the operator of the node, never one taken from the negation table. R15.9 (later form): the set test looks inside containers, and binary operations are fenced too. R15.4 (later form): the handler of the signal yields no rewrite at all, effect-free or not.'


def check(prog: Program, tier: str) -> Result:
    res = Result(
        "C15",
        explanation=(
            "Decides the structural clauses of constant evaluation: (R15.1) every entry of the operator table maps an "
            "ast operator class to the Python operation of that class with operands in source order, and the "
            "evaluator applies it to (left, right) in that order, pairing adjacent operands of a comparison chain; "
            "(R15.2) every foreign call inside the evaluator is enclosed by a handler that turns any Exception into "
            "the 'unknown' signal ValueError, and every external call site handles the signal; (R15.3) the set of "
            "builtins the evaluator may invoke at refactoring time, and the whitelist of its side-effect precondition, "
            "contain no impure builtin; (R15.4) at every consumer the handler of the signal leaves the construct "
            "untouched (no rewrite yielded unless the expression is shown effect-free); (R15.5) short-circuit "
            "evaluation of and/or returns the first falsy / first truthy operand value, else the last; (R15.6) calls are evaluated from their "
            "positional arguments only when they have no keywords; inner functions of the evaluator are not called from outside around the "
            "converting entry (R15.2); (R15.7) a callee name is resolved to the builtin only under a test against the names the analysed "
            "module binds (known finding); (R15.8) no memo table of the evaluator is keyed by evaluated values (== conflates 1, 1.0 and True). Primitives are followed into helpers and through local callee variables; their guards are read where the callee is formed or at every call of the helper. Not decided: "
            "the values computed by the Python operations themselves, evaluation cost."),
        rule_text="instances = operator table entries, evaluator call sites and primitive foreign calls, whitelist members, consumer handlers",
    )
    res.explanation += LATER_RULES
    res.trusted_base = ["CPython ast, builtins exception hierarchy", "reference operator table OPERATOR_REF and impure-builtin blacklist in sa/props/c15.py"]
    res.assumptions = ["methods of ast.Constant receivers (str, bytes, numbers, None, bool, Ellipsis) are pure because the receivers are immutable"]
    ev = Evaluator(prog)
    _r15_1(prog, res, ev)
    r15_2(prog, res, ev, "R15.2")
    _r15_3(prog, res, ev)
    _r15_4(prog, res, ev)
    _r15_5(prog, res, ev)
    _r15_6(prog, res, ev)
    _r15_8(prog, res, ev)
    _r15_9(prog, res, ev)
    _r15_14(prog, res, ev)
    _r15_15(prog, res)
    _r15_16(prog, res, ev)
    _r15_13(prog, res, ev)
    _r15_10(prog, res, ev)
    _r15_11(prog, res, ev)
    _r15_12(prog, res, ev)
    _r15_7(prog, res, ev)
    res.floors.update({"R15.1": 23, "R15.2": 18, "R15.3": 2, "R15.4": 10, "R15.5": 2, "R15.6": 2, "R15.9": 2, "R15.10": 5, "R15.11": 8, "R15.12": 3, "R15.13": 2, "R15.14": 1, "R15.15": 2, "R15.16": 1})
    res.analysed.update({"evaluator_functions": [f.fq for f in ev.members], "external_call_sites": len(ev.call_sites())})
    return res


# ------------------------------------------------------------------------------------------------ R15.10
def _r15_10(prog: Program, res: Result, ev: Evaluator) -> None:
    """A comprehension condition with the known value False: NO element is produced, whatever the other `for` clauses
    say - and Python still evaluates the iterables and the conditions before it.  At the consumer that evaluates the
    conditions of a comprehension (a loop over `.generators` around a loop over `.ifs` around the evaluator call):
      (a) a rewrite that keeps part of the comprehension is reached only when a `dead` flag - set exactly where a
          condition evaluated to false, never reset between the clauses - is known to be False
          (`[a for a in range(3) for b in range(2) if False]` is not `list(range(3))`);
      (b) a rewrite to the empty container is reached only when that flag is True, the iterables were tested for
          effects and no condition of unknown value (recorded in the handler of the signal) came before
          (`[x for x in f() if 1/0 if 0]` is not `[]`)."""
    n = 0
    for f, c in ev.call_sites():
        ifs_loop = _enclosing(c, f, lambda x: isinstance(x, ast.For) and norm(x.iter).endswith(".ifs"))
        gen_loop = _enclosing(ifs_loop, f, lambda x: isinstance(x, ast.For) and norm(x.iter).endswith(".generators")) if ifs_loop else None
        outer = _enclosing(gen_loop, f, lambda x: isinstance(x, ast.For)) if gen_loop else None
        if outer is None:
            continue
        n += 1
        st = parent(c)
        vname = st.targets[0].id if isinstance(st, ast.Assign) and isinstance(st.targets[0], ast.Name) else None
        # the branch taken when the evaluated condition is false
        falsy_branches = []
        for i in walk_body(ifs_loop.body):
            if isinstance(i, ast.If):
                t, pol = i.test, True
                while isinstance(t, ast.UnaryOp) and isinstance(t.op, ast.Not):
                    t, pol = t.operand, not pol
                if isinstance(t, ast.Name) and t.id == vname:
                    falsy_branches.append(i.orelse if pol else i.body)
        in_gen_loop = {id(x) for x in ast.walk(gen_loop)}
        assigns = [a for a in walk_body(outer.body) if isinstance(a, ast.Assign) and len(a.targets) == 1 and isinstance(a.targets[0], ast.Name)
                   and isinstance(a.value, ast.Constant) and isinstance(a.value.value, bool)]
        flags: set = set()
        changed = True
        while changed:
            changed = False
            for name in {a.targets[0].id for a in assigns} - flags:
                trues = [a for a in assigns if a.targets[0].id == name and a.value.value is True]
                if trues and all(_set_where_dead(a, falsy_branches, flags) for a in trues):
                    flags.add(name)
                    changed = True
        monotone = {m for m in flags if not any(a.targets[0].id == m and a.value.value is False and id(a) in in_gen_loop for a in assigns)}
        handler_lists = set()
        for h in ast.walk(gen_loop):
            if isinstance(h, ast.ExceptHandler):
                for call in ast.walk(h):
                    if isinstance(call, ast.Call) and isinstance(call.func, ast.Attribute) and call.func.attr in ("append", "add") and isinstance(call.func.value, ast.Name):
                        handler_lists.add(call.func.value.id)
        pa = PathAnalysis(prog, f)
        node_var = norm(outer.target)
        for y in walk_body(outer.body):
            if not isinstance(y, ast.Yield) or id(y) in in_gen_loop or y.value is None:
                continue
            repl = y.value.elts[1] if isinstance(y.value, ast.Tuple) and len(y.value.elts) == 2 else y.value
            keeps = any(isinstance(x, ast.Name) and x.id == node_var for x in ast.walk(repl))
            worlds = pa.worlds_at(y)
            if not worlds:
                continue
            def lit(w, name, pol):
                return ("lit", w.token(name), pol) in w.facts
            if keeps:
                ok = all(any(lit(w, m, False) for m in monotone) for w in worlds)
                res.decide(ok, "R15.10", f.loc(y), f.fq, f"{short(y, 70)} # keeps part of the comprehension",
                           f"reached only when no condition evaluated to false ({sorted(monotone)} is False)" if ok else
                           "a rewrite that keeps part of the comprehension can be reached after one of its conditions evaluated to false: the clause with the false "
                           "condition is dropped and the others go on producing elements (`[a for a in range(3) for b in range(2) if False]` -> `list(range(3))`)")
            else:
                missing = []
                for w in worlds:
                    if not any(lit(w, m, True) for m in monotone):
                        missing.append("not known to be the dead case")
                    if not any(fct[0] == "lit" and not fct[2] and "has_side_effect(" in fct[1] for fct in w.facts):
                        missing.append("the iterables are not tested for effects")
                    if not any(lit(w, l, False) for l in handler_lists):
                        missing.append("conditions of unknown value before the false one are not excluded")
                missing = sorted(set(missing))
                res.decide(not missing, "R15.10", f.loc(y), f.fq, f"{short(y, 70)} # the empty container",
                           "only for a dead comprehension whose iterables have no effect and whose earlier conditions are all known" if not missing else
                           "; ".join(missing) + ": what Python evaluates before it reaches the false condition disappears (`[x for x in f() if 1/0 if 0]` -> `[]`)")
    res.analysed["comprehension_consumers"] = n


def _enclosing(node, f: Func, pred):
    p = parent(node) if node is not None else None
    while p is not None and p is not f.node:
        if pred(p):
            return p
        p = parent(p)
    return None


def _set_where_dead(a: ast.Assign, falsy_branches, flags) -> bool:
    """The assignment `X = True` happens exactly where a condition is known to be false: in the branch taken for a false value,
    or under `if <flag>` for a flag already known to mean that."""
    p, child = parent(a), a
    while p is not None and not isinstance(p, (ast.FunctionDef, ast.AsyncFunctionDef)):
        if isinstance(p, ast.If):
            if any(child in br for br in falsy_branches):
                return True
            t, pol = p.test, True
            while isinstance(t, ast.UnaryOp) and isinstance(t.op, ast.Not):
                t, pol = t.operand, not pol
            if isinstance(t, ast.Name) and t.id in flags and ((pol and child in p.body) or (not pol and child in p.orelse)):
                return True
        child, p = p, parent(p)
    return False



# ------------------------------------------------------------------------------------------------ R15.11
def _mentions_yield_classes(tree: ast.AST) -> bool:
    names = {norm(a) for a in ast.walk(tree) if isinstance(a, ast.Attribute)}
    return {"ast.Yield", "ast.YieldFrom"} <= names


def _r15_11(prog: Program, res: Result, ev: Evaluator) -> None:
    """Code that is never reached still has one effect: a `yield` in it makes the enclosing function a generator
    (`if False: yield`, `return; yield` are the idioms for an empty generator).  Where the evaluator decides the test of an
    if / while / conditional expression, every rewrite of the same loop (deleting the dead branch, the statements after a
    blocking one, choosing one arm) is reached only when a search for Yield / YieldFrom in the removed code - or in the
    whole construct - came back empty."""
    n = 0
    seen = set()
    for f, c in ev.call_sites():
        if not (c.args and norm(c.args[0]).endswith(".test")) or not any(isinstance(x, ast.Yield) for x in walk_own(f.node)):
            continue
        loop = _enclosing(c, f, lambda x: isinstance(x, ast.For))
        if loop is None or id(loop) in seen:
            continue
        seen.add(id(loop))
        n += 1
        # calls that search for yields: directly, or through a helper that does
        tests = {}
        for call in prog.calls_in(f):
            direct = _mentions_yield_classes(call) and norm(call.func) in ("any", "bool", "next", "list")
            helper = False
            r = prog.resolve_call(call.func, f.mod, f)
            if r and r[0] == "fn" and _mentions_yield_classes(r[1].node) and len(r[1].posparams) == 1:
                helper = True
            if (direct or helper) and call.args:
                arg = call.args[0]
                if direct:
                    inner = next((x for x in ast.walk(call) if isinstance(x, ast.Call) and x is not call and x.args and _mentions_yield_classes(x)), None)
                    arg = inner.args[0] if inner is not None else arg
                tests[norm(call)] = norm(arg)
        pa = PathAnalysis(prog, f)
        loop_var = norm(loop.target)
        for y in walk_body(loop.body):
            if not isinstance(y, ast.Yield) or y.value is None:
                continue
            removed = norm(y.value.elts[0]) if isinstance(y.value, ast.Tuple) and y.value.elts else norm(y.value)
            worlds = pa.worlds_at(y)
            if not worlds:
                continue
            ok = True
            for w in worlds:
                neg = {plain(fct[1]) for fct in w.facts if fct[0] == "lit" and not fct[2]}
                if not any(t in neg and tests[t] in (removed, loop_var) for t in tests):
                    ok = False
            res.decide(ok, "R15.11", f.loc(y), f.fq, f"{short(y, 70)} # rewrite of a construct with a decided test",
                       "reached only when the removed code was searched for yield and has none" if ok else
                       "dead code is removed without looking for a `yield` in it: `if False: yield` / `return; yield` make the function a generator, "
                       "without them it is a plain function (calling it runs the body, iterating the result fails)")
    res.analysed["decided_test_consumers"] = n



# ------------------------------------------------------------------------------------------------ R15.12
def _cost_predicates(prog: Program) -> Dict[Tuple[str, str], Func]:
    """Functions of core that answer `is this too large to compute`: they measure their arguments (`.bit_length()` / `len(..)`) and
    compare with a constant bound."""
    out = {}
    for f in prog.funcs.values():
        if f.mod.name != "core":
            continue
        text = norm(f.node)
        measures = ".bit_length()" in text or "len(" in text
        bound = any(isinstance(c, ast.Compare) and isinstance(c.ops[0], (ast.Gt, ast.GtE, ast.Lt, ast.LtE)) for c in ast.walk(f.node))
        limit = any(isinstance(k, ast.Constant) and isinstance(k.value, int) and k.value >= 100 for k in ast.walk(f.node))
        if measures and bound and limit and f.node.returns is not None and norm(f.node.returns) == "bool":
            out[f.key] = f
    return out


def _r15_12(prog: Program, res: Result, ev: Evaluator) -> None:
    """The evaluator COMPUTES: it applies Python's operators, builtins and methods to evaluated values inside the formatter.
    `9 ** 9 ** 9`, `sum(range(10 ** 10))`, `'a'.ljust(10 ** 10)` cost hours or gigabytes - for an expression the program
    may never reach (`if x or 9 ** 9 ** 9`).  A time bound is no static fact, the fence is: every primitive application
    (operator-table call, builtin by name, method of a constant) is reached only under the negative answer of a cost
    predicate over its operands - except where the node is a comparison (cost bounded by the operands, which were
    computed under the fence)."""
    from ..pathcond import plain
    preds = _cost_predicates(prog)
    n = 0
    for f in ev.members:
        pa = None
        for c in prog.calls_in(f):
            kind = ev.primitive_kind(c, f)
            if not kind:
                continue
            n += 1
            if "literal_eval" in kind:
                res.ok("R15.12", f.loc(c), f.fq, f"{short(c, 60)} # {kind}", "builds the value of a literal display: linear in the text of the literal", trivial=True)
                continue
            pa = pa or PathAnalysis(prog, f)
            worlds = pa.worlds_at(c)
            if not worlds:
                continue
            def fenced(w) -> Optional[str]:
                for fct in w.facts:
                    if fct[0] == "lit" and not fct[2]:
                        name = plain(fct[1]).split("(", 1)[0]
                        if ("core", name) in preds:
                            return name
                return None
            def comparison(w) -> bool:
                return any(fct[0] == "lit" and fct[2] and "match_template(" in plain(fct[1]) and "ast.Compare(" in plain(fct[1]) for fct in w.facts)
            # a comparison costs at most the size of its operands - provided every operand that can be BUILT is bounded where it is built.
            # A range has no size in memory: `1.5 in range(10 ** 12)` walks it number by number.  The exemption therefore holds only if
            # the cost predicate of calls bounds the length of the ranges it lets through (a branch for "range" that takes len(range(..))).
            ranges_bounded = any("'range'" in norm(g.node) and "len(range(" in norm(g.node).replace(" ", "") for g in prog.funcs.values() if g.key in preds)
            verdicts = [fenced(w) or ("comparison" if (comparison(w) and ranges_bounded) else None) for w in worlds]
            ok = all(verdicts)
            res.decide(ok, "R15.12", f.loc(c), f.fq, f"{short(c, 60)} # {kind} applied to evaluated values",
                       f"only under {sorted(set(verdicts))}" if ok else
                       ("a comparison is applied without a bound on its cost and the length of constructed ranges is not bounded either: `1.5 in range(10 ** 12)` walks the range. " if any(comparison(w) for w in worlds) else "") +
                       "a Python operation is applied to evaluated values without a bound on its cost: `9 ** 9 ** 9`, `sum(range(10 ** 10))`, `'a'.ljust(10 ** 10)` are "
                       "computed while formatting (hours, gigabytes), also for an operand the program never reaches")
    res.analysed["primitive_applications"] = n



# ------------------------------------------------------------------------------------------------ R15.9
def _r15_9(prog: Program, res: Result, ev: Evaluator) -> None:
    """The evaluator runs in ANOTHER process than the program it folds.  The order in which a set of strings is iterated depends
    on the hash seed, which differs between the two (and between two runs of the formatter): `list({"spam", "eggs"}) == [...]`,
    `", ".join({...})`, `str({...})` have no value that is true for the program.  At every primitive that calls a builtin or a
    method with evaluated arguments the path must carry the outcome of a test for set-valued arguments (a repository
    predicate whose body tests isinstance(.., (set, frozenset)), or that test inline)."""
    from ..pathcond import entails
    n = 0

    def is_set_test(text: str) -> bool:
        t = text.replace(" ", "")
        return "isinstance(" in t and ("(set,frozenset)" in t or "(frozenset,set)" in t)

    def looks_inside(g, seen=()) -> bool:
        """the set test of predicate g is applied to the elements of containers too: it sits in a function that calls itself on
        the elements of its argument (directly, or in a helper that g hands its arguments to)"""
        if g.key in seen:
            return False
        own = is_set_test(" ".join(norm(x) for x in walk_own(g.node) if isinstance(x, ast.Call) and norm(x.func) == "isinstance"))
        recursive = any((lambda r: r and r[0] == "fn" and r[1].key == g.key)(prog.resolve_call(x.func, g.mod, g)) for x in prog.calls_in(g))
        if own:
            return recursive
        for x in prog.calls_in(g):
            r = prog.resolve_call(x.func, g.mod, g)
            if r and r[0] == "fn" and is_set_test(norm(r[1].node)) and looks_inside(r[1], seen + (g.key,)):
                return True
        return False
    shallow_reported = set()
    for f, c, kind in ev.primitive_sites():
        if kind == "operator table call":
            # comparisons (==, <, in, is ..) cannot see the order of a set; binary operations can: "%s" % {"a", "b"}
            idx = c.func.slice if isinstance(c.func, ast.Subscript) else None
            from_compare = idx is not None and any(isinstance(a, (ast.GeneratorExp, ast.ListComp, ast.For)) for a in [*__import__("sa.model", fromlist=["ancestors"]).ancestors(c)]) \
                and "ops" in " ".join([norm(g.iter) for a in __import__("sa.model", fromlist=["ancestors"]).ancestors(c) for g in getattr(a, "generators", [])]
                                      + [norm(a.iter) for a in __import__("sa.model", fromlist=["ancestors"]).ancestors(c) if isinstance(a, ast.For)])
            if from_compare:
                res.ok("R15.9", f.loc(c), f.fq, f"{short(c, 70)} # {kind}", "operators of a comparison: no comparison can see the order of a set", trivial=True)
                continue
        elif kind not in ("builtin call", "method call on evaluated receiver"):
            continue
        n += 1

        def tested_at(g, at, call) -> bool:
            """at `at` in g, the outcome (negative) of a set test over what `call` passes on is known"""
            pa = _pa(prog, g)
            worlds = pa.worlds_at(at)
            passed = {y.id for a in call.args for y in ast.walk(a) if isinstance(y, ast.Name)}
            tests = []
            for x in ast.walk(g.node):
                if isinstance(x, ast.Call) and passed & {y.id for a in x.args for y in ast.walk(a) if isinstance(y, ast.Name)}:
                    r = prog.resolve_call(x.func, g.mod, g)
                    if r and r[0] == "fn" and r[1].key not in {m_.key for m_ in ev.members} and (is_set_test(norm(r[1].node)) or any(
                            (lambda r2: r2 and r2[0] == "fn" and is_set_test(norm(r2[1].node)))(prog.resolve_call(y.func, r[1].mod, r[1])) for y in prog.calls_in(r[1]))):
                        tests.append(x)
                        if not looks_inside(r[1]) and r[1].key not in shallow_reported:
                            shallow_reported.add(r[1].key)
                            res.bad("R15.9", r[1].loc(), r[1].fq, f"{r[1].node.name}() # the test for sets among the evaluated values",
                                    "only the values themselves are tested, not what they contain: a set inside a list, tuple or dict is written out in its iteration "
                                    "order all the same - `str([{'spam', 'eggs'}])`, `repr({1: {..}})`")
                    elif isinstance(x.func, ast.Name) and x.func.id == "any" and is_set_test(norm(x)):
                        tests.append(x)
                        if ("inline", g.key) not in shallow_reported:
                            shallow_reported.add(("inline", g.key))
                            res.bad("R15.9", g.loc(x), g.fq, f"{short(x, 70)} # the test for sets among the evaluated values",
                                    "only the values themselves are tested, not what they contain: a set inside a list, tuple or dict is written out in its iteration order all the same")
            return bool(worlds) and any(all(entails(w.facts, pa.formula(t, w, False)) for w in worlds) for t in tests)
        ok = False
        for alt in ev.guard_sites(f, c, kind):
            # inside the function that performs the call, the test must be known AT THE CALL (a callee held in a local is bound before
            # the arguments are tested); for a helper, at each call of the helper
            if alt and all(tested_at(g, c if g is f else at, c if g is f else at) for g, at, _e, _subst in alt):
                ok = True
        res.decide(ok, "R15.9", f.loc(c), f.fq, f"{short(c, 70)} # {kind}",
                   "performed only after the arguments were tested for sets whose order the call could reveal" if ok else
                   "evaluated arguments that are SETS are handed to a call that can see their iteration order (list, tuple, str, join, enumerate, zip ...): the value depends on the "
                   "hash seed of the formatter's process, not of the program - `list({'spam', 'eggs', 'ham'}) == [..]` folds to True or False from run to run")
    if n == 0:
        raise AnalysisError("R15.9: no builtin / method primitive found")


# ------------------------------------------------------------------------------------------------ R15.15
def _r15_16(prog: Program, res: Result, ev: Evaluator) -> None:
    """A method of a constant is pure, but not every one of them answers the same in every process: `'a'.__hash__()` is the hash() that
    PURE_BUILTIN_FUNCTIONS leaves out for that reason (hash seed), `__sizeof__`, `__reduce_ex__`, `__dir__` describe the interpreter.  All
    of them are spelled with a leading underscore.  Where the evaluator calls a method whose NAME comes from the analysed code
    (`getattr(<value>, <name taken from the tree>)(..)`), it does so only under the negative answer of `<name>.startswith('_')` (or
    under membership of the name in a table)."""
    from ..pathcond import plain
    n = 0
    for f in ev.members:
        pa = None
        for c in prog.calls_in(f):
            g = c.func
            if not (isinstance(g, ast.Call) and isinstance(g.func, ast.Name) and g.func.id == "getattr" and len(g.args) == 2):
                continue
            if norm(g.args[0]) == "builtins" or isinstance(g.args[1], ast.Constant):
                continue
            n += 1
            name = norm(g.args[1])
            pa = pa or PathAnalysis(prog, f)
            worlds = pa.worlds_at(c)

            def fenced(w) -> bool:
                for fct in w.facts:
                    if fct[0] != "lit":
                        continue
                    t = plain(fct[1]).replace('"', "'")
                    if not fct[2] and t.startswith(name + ".startswith('_") and t.rstrip(")").rstrip("'").endswith("_"):
                        return True
                    if fct[2] and t.startswith(name + " in "):
                        return True
                return False
            ok = bool(worlds) and all(fenced(w) for w in worlds)
            res.decide(ok, "R15.16", f.loc(c), f.fq, f"{short(c, 60)} # a method named by the analysed code is called",
                       "only for names without a leading underscore (or names of a table)" if ok else
                       f"any method of the constant is called, also the ones that describe the process and not the value: `'a'.__hash__() % 2` is decided with the "
                       "hash seed of the formatting process and the program runs with another one")
    if n == 0:
        res.undecided("R15.16", "pyrefact/core.py:0", "core", "calls of a method named by the analysed code", "none found (the `''.join(..)` branch of _literal_value is expected)")


def _r15_15(prog: Program, res: Result) -> None:
    """`a >= b` is not `not (a < b)`: for partially ordered values (sets that are not subsets of each other, NaN) both are False.
    The negation table (REVERSE_OPERATOR_MAPPING) is a table about SYNTAX that holds for the tests pyrefact swaps
    (`if not a < b` / `if a >= b` is decided under C17 for the operand kinds that occur there); it must never choose the operator
    that is APPLIED to evaluated values.  Instance: every application of the operator table `COMPARISON_OPERATORS[type(op)](l, r)`;
    obligation: `op` is the operator of the node, not one looked up in the negation table."""
    n = 0
    for fn in prog.funcs.values():
        for c in walk_own(fn.node):
            if not (isinstance(c, ast.Call) and isinstance(c.func, ast.Subscript) and "COMPARISON_OPERATORS" in norm(c.func.value)):
                continue
            n += 1
            idx = c.func.slice
            names = [x.id for x in ast.walk(idx) if isinstance(x, ast.Name)]
            through_negation = "REVERSE_OPERATOR_MAPPING" in norm(idx)
            for nm in names:
                for _s, v in bindings(fn).get(nm, []):
                    if v is not None and "REVERSE_OPERATOR_MAPPING" in norm(v):
                        through_negation = True
            res.decide(not through_negation, "R15.15", fn.loc(c), fn.fq, f"{short(c, 70)} # operator applied to evaluated values",
                       "the operator of the node" if not through_negation else
                       "the applied operator comes out of the NEGATION table (`>=` computed as `not <`): wrong for partially ordered values - `{1} >= {2}` is False and "
                       "`not ({1} < {2})` is True, likewise with NaN")
    if n == 0:
        raise AnalysisError("R15.15: no application of the operator table found")


# ------------------------------------------------------------------------------------------------ R15.14
ORDER_BLIND_REFERENCE = {
    # the result for a set argument is the same whatever order the set is iterated in
    "len", "sorted", "min", "max", "any", "all", "set", "frozenset", "bool", "isinstance", "callable",
}   # NOT: sum (start value concatenation sum(S, ()), float addition is not associative), list, tuple, str, repr, next, iter, zip, enumerate, dict, join ..


def _r15_14(prog: Program, res: Result, ev: Evaluator) -> None:
    """The set-order fence exempts calls that cannot see the order.  The exemption table (a display of names tested against the
    callee name inside the predicate that holds the set test) is compared with a reference table: a name that is not
    order-blind for every argument list (`sum`: sum({("x",), ("y",)}, ()) concatenates in iteration order) lets an
    order-dependent value through."""
    n = 0
    for g in prog.funcs.values():
        if g.mod.name != "core":
            continue
        t = " ".join(norm(x) for x in walk_own(g.node) if isinstance(x, ast.Call))
        calls_set_test = any((lambda r: r and r[0] == "fn" and "isinstance(" in norm(r[1].node) and "frozenset" in norm(r[1].node))(prog.resolve_call(x.func, g.mod, g)) for x in prog.calls_in(g))
        if not (("isinstance(" in t and "frozenset" in t) or calls_set_test):
            continue
        params = set(g.all_params)
        for cmp_ in walk_own(g.node):
            if not (isinstance(cmp_, ast.Compare) and len(cmp_.ops) == 1 and isinstance(cmp_.ops[0], (ast.In, ast.NotIn)) and isinstance(cmp_.left, ast.Name) and cmp_.left.id in params):
                continue
            table = cmp_.comparators[0]
            if isinstance(table, ast.Name):
                vals = [v for _s, v in bindings(g).get(table.id, []) if v is not None]
                table = vals[0] if len(vals) == 1 else (g.mod.globals.get(table.id) if not vals else None)
            if not isinstance(table, (ast.Set, ast.Tuple, ast.List)) or not all(isinstance(e, ast.Constant) and isinstance(e.value, str) for e in table.elts):
                continue
            n += 1
            names = [e.value for e in table.elts]
            wrong = sorted(set(names) - ORDER_BLIND_REFERENCE)
            res.decide(not wrong, "R15.14", g.loc(cmp_), g.fq, f"{short(cmp_, 60)} # calls exempt from the set-order fence",
                       f"all {len(names)} exempt names are order-blind" if not wrong else
                       f"{wrong} can see the order in which a set is iterated (sum(S, ()) concatenates in that order; float addition is not associative): the folded value "
                       "is that of the formatter's hash seed")
    if n == 0:
        res.undecided("R15.14", "pyrefact/core.py:0", "core", "exemption table of the set-order fence", "no table of callee names found next to the set test")


# ------------------------------------------------------------------------------------------------ R15.13
def _r15_13(prog: Program, res: Result, ev: Evaluator) -> None:
    """Evaluated values do not outlive the evaluation.  The whitelisted builtins hand out single-use iterators (reversed, zip,
    map, filter, enumerate, iter) and mutable containers; a value that is remembered - functools cache on a function of the
    evaluator, or a store into a table that lives longer than the call (module level, enclosing scope) - is handed to a later
    evaluation exhausted or modified, whatever the table is keyed by (the node, its dump, its text)."""
    n = 0
    keys = {f.key for f in ev.members}
    for f in ev.members:
        n += 1
        if f.is_cached:
            res.bad("R15.13", f.loc(), f.fq, f"{f.node.name}() # a function of the evaluator is memoised",
                    "the same VALUE object is handed out again: an iterator (reversed(..), zip(..)) comes back exhausted by its first consumer, a list modified")
            continue
        bad = None
        local = set(bindings(f)) | set(f.all_params)
        for st_ in walk_own(f.node):
            tgt = None
            if isinstance(st_, ast.Assign) and isinstance(st_.targets[0], ast.Subscript):
                tgt, val = st_.targets[0], st_.value
            elif isinstance(st_, ast.Call) and isinstance(st_.func, ast.Attribute) and st_.func.attr in ("setdefault", "update", "append", "add") and st_.args:
                tgt, val = st_.func, st_.args[-1]
            if tgt is None or not isinstance(tgt.value, ast.Name) or tgt.value.id in local:
                continue
            exprs = [val] + [v for x in ast.walk(val) if isinstance(x, ast.Name) for (_s, v) in bindings(f).get(x.id, []) if v is not None]
            hot = any(isinstance(x, ast.Call) and (lambda r: r and r[0] == "fn" and r[1].key in keys)(prog.resolve_call(x.func, f.mod, f)) for e in exprs for x in ast.walk(e))
            if hot:
                bad = st_
        if bad is not None:
            res.bad("R15.13", f.loc(bad), f.fq, f"{short(bad, 70)} # an evaluated value is stored beyond the evaluation",
                    f"`{norm(bad.targets[0].value) if isinstance(bad, ast.Assign) else norm(bad.func.value)}` is not a local of the function: the value is handed to a later evaluation as the SAME object - "
                    "`tuple(reversed([1, 2]))` after `list(reversed([1, 2]))` gets the exhausted iterator and folds to ()")
        else:
            res.ok("R15.13", f.loc(), f.fq, f"{f.node.name}() # evaluated values stay inside the evaluation", "not memoised, no store into a longer-lived table")
    if n == 0:
        raise AnalysisError("R15.13: no function of the evaluator found")


# ------------------------------------------------------------------------------------------------ R15.8
def _r15_8(prog: Program, res: Result, ev: Evaluator) -> None:
    """No memo table keyed by EVALUATED VALUES: functools caches key by hash and ==, under which 1, 1.0 and True (and 0.0 and
    -0.0; typed=True only tells the top-level arguments apart, not the members of a tuple) are the same key, so the second of
    str(1) / str(1.0) would answer with the first one's value.  A cache keyed by the NODE is keyed by identity and is fine."""
    keys = {f.key for f in ev.members}

    def evaluated(e: ast.AST, f) -> bool:
        for x in ast.walk(e):
            if isinstance(x, ast.Call):
                r = prog.resolve_call(x.func, f.mod, f)
                if r and r[0] == "fn" and r[1].key in keys:
                    return True
        return False
    n = 0
    for f in ev.members:
        for c in prog.calls_in(f):
            r = prog.resolve_call(c.func, f.mod, f)
            if not (r and r[0] == "fn" and r[1].is_cached):
                continue
            callee = r[1]
            n += 1
            args = list(c.args) + [k.value for k in c.keywords]
            hot = None
            for a in args:
                exprs = [a]
                for x in ast.walk(a):
                    if isinstance(x, ast.Name):
                        exprs += [v for (_s, v) in bindings(f).get(x.id, []) if v is not None]
                if any(evaluated(e, f) for e in exprs):
                    hot = a
                    break
            res.decide(hot is None, "R15.8", f.loc(c), f.fq, short(c, 80),
                       f"memoised {callee.name} is keyed by nodes (identity), not by evaluated values" if hot is None else
                       f"{callee.name} is memoised and `{norm(hot)}` is an evaluated value: the memo key compares by ==, so 1, 1.0 and True "
                       "(0.0 and -0.0, and tuples of them even with typed=True) share one entry and the second expression gets the first one's result")
    if not n:
        res.ok("R15.8", ev.entry.loc(), ev.entry.fq, f"memoised functions among the evaluator's {len(ev.members)} members # none called with evaluated values",
               "no memo table keyed by evaluated values exists")


# ------------------------------------------------------------------------------------------------ R15.1
def _r15_1(prog: Program, res: Result, ev: Evaluator) -> None:
    node = prog.module("constants").globals.get("COMPARISON_OPERATORS")
    if node is None:
        raise AnalysisError("constants.COMPARISON_OPERATORS not found")
    where = f"pyrefact/constants.py:{node.lineno}"
    try:
        table = prog.const("constants", "COMPARISON_OPERATORS")
    except Unresolvable as error:
        res.undecided("R15.1", where, "constants.COMPARISON_OPERATORS", "operator table", f"not resolvable: {error}")
        return
    for k, v in table.items():
        kn = getattr(k, "name", str(k))
        text = f"ast.{kn}: {v}"
        if isinstance(v, Sym) and v.kind == "ext" and str(v.value).startswith("operator."):
            got = str(v.value).split(".", 1)[1]
            want = OPERATOR_REF.get(kn)
            if want is None:
                res.bad("R15.1", where, "constants.COMPARISON_OPERATORS", text, f"no operator function evaluates `left {kn} right` with operands in source order (operator.contains swaps them)")
            else:
                res.decide(got == want, "R15.1", where, "constants.COMPARISON_OPERATORS", text,
                           f"operator.{want} is `left {kn} right`" if got == want else f"ast.{kn} must evaluate with operator.{want}, not operator.{got}")
        elif isinstance(v, Sym) and v.kind == "lambda":
            sem = lambda_semantics(v.value)
            if sem is None:
                res.undecided("R15.1", where, "constants.COMPARISON_OPERATORS", text, "lambda form not recognised")
            else:
                name, li, ri = sem
                ok = name == kn and (li, ri) == (0, 1)
                res.decide(ok, "R15.1", where, "constants.COMPARISON_OPERATORS", text,
                           f"computes `left {kn} right`" if ok else f"computes `arg{li} {name} arg{ri}` for ast.{kn}")
        else:
            res.undecided("R15.1", where, "constants.COMPARISON_OPERATORS", text, "callable form not recognised")
    # application sites inside the evaluator: OPS[type(X)](L, R)
    for f, c, kind in ev.primitive_sites():
        if kind != "operator table call":
            continue
        if len(c.args) != 2:
            res.bad("R15.1", f.loc(c), f.fq, short(c), "operator applied to other than two operands")
            continue
        l, r = c.args
        lo, ro = _origin(f, l), _origin(f, r)
        idx = c.func.slice
        opsrc = norm(idx)
        good = None
        detail = ""
        if lo and ro:
            if lo[1] == "left" and ro[1] == "right" and lo[0] == ro[0]:
                good = f"type({lo[0]}.op)" in opsrc.replace(" ", "")
                detail = "binary operator applied to (left, right)" if good else f"operator looked up from {opsrc}, operands from {lo[0]}"
            elif lo[1] == "right" and ro[1] == "left":
                good, detail = False, "operands swapped: operator applied to (right, left)"
        if good is None:
            # comparison chain form: for left, op, comparator in zip([n.left] + n.comparators, n.ops, n.comparators)
            z = _chain_zip(f, c)
            if z is not None:
                good, detail = z
        if good is None:
            res.undecided("R15.1", f.loc(c), f.fq, short(c), "operand origin not recognised")
        else:
            res.decide(good, "R15.1", f.loc(c), f.fq, short(c), detail)


def _origin(f: Func, e: ast.AST) -> Optional[Tuple[str, str]]:
    """(node variable, field) when e is literal_value(<node>.<field>) or a local bound once to that."""
    if isinstance(e, ast.Name):
        defs = assignments(f, e.id)
        if len(defs) == 1 and defs[0][1] is not None:
            e = defs[0][1]
        else:
            return None
    if isinstance(e, ast.Call) and len(e.args) == 1 and isinstance(e.args[0], ast.Attribute) and isinstance(e.args[0].value, ast.Name):
        return e.args[0].value.id, e.args[0].attr
    return None


def _chain_zip(f: Func, c: ast.Call) -> Optional[Tuple[bool, str]]:
    gen = parent(c)
    while gen is not None and not isinstance(gen, (ast.GeneratorExp, ast.ListComp)):
        gen = parent(gen)
    if gen is None or len(gen.generators) != 1:
        return None
    g = gen.generators[0]
    it = g.iter
    if not (isinstance(it, ast.Call) and isinstance(it.func, ast.Name) and it.func.id == "zip" and len(it.args) == 3
            and isinstance(g.target, ast.Tuple) and len(g.target.elts) == 3):
        return None
    a, b, d = [norm(x).replace(" ", "") for x in it.args]
    tl, to, tr = [norm(x) for x in g.target.elts]
    m = None
    import re as _re
    mm = _re.fullmatch(r"\[(\w+)\.left\]\+(\w+)\.comparators", a)
    if not mm or mm.group(1) != mm.group(2):
        return False, f"left operands of the chain are {a}, expected [n.left] + n.comparators"
    n = mm.group(1)
    if b != f"{n}.ops" or d != f"{n}.comparators":
        return False, f"chain pairs operands with {b} / {d}, expected {n}.ops / {n}.comparators"
    l, r = c.args
    okl = isinstance(l, ast.Call) and l.args and norm(l.args[0]) == tl
    okr = isinstance(r, ast.Call) and r.args and norm(r.args[0]) == tr
    okop = f"type({to})" in norm(c.func.slice)
    agg = parent(gen)
    all_ok = isinstance(agg, ast.Call) and isinstance(agg.func, ast.Name) and agg.func.id == "all"
    if okl and okr and okop and all_ok:
        return True, "adjacent operands of the chain paired with their operator, conjunction over all pairs"
    return False, ("chain is not aggregated with all()" if not all_ok else "operator applied to the wrong pair of chain operands")


# ------------------------------------------------------------------------------------------------ R15.2 (= C04 R4.a)
def r15_2(prog: Program, res: Result, ev: Evaluator, rule: str) -> None:
    esc = ev.escapes()
    for f, c, kind in ev.primitive_sites():
        h = caught(c, f, "Exception")
        local = h is not None and handler_raises_signal(h)
        if local:
            res.ok(rule, f.loc(c), f.fq, f"{short(c, 70)} # {kind}", "enclosed by a handler that converts any Exception into ValueError")
    # what can leave the public entry
    leaks = esc.get(ev.entry.key, [])
    member_sites = ev.primitive_sites()
    for f, c, kind in member_sites:
        h = caught(c, f, "Exception")
        if h is not None and handler_raises_signal(h):
            continue
        # not enclosed locally: is it enclosed on the way out of the public entry?
        leaking = any(True for _ in leaks) if f.key != ev.entry.key else any(x[0] is c for x in leaks)
        if f.key != ev.entry.key:
            leaking = bool(esc.get(f.key)) and bool(leaks)
        res.decide(not leaking, rule, f.loc(c), f.fq, f"{short(c, 70)} # {kind}",
                   "exceptions are converted to the signal before leaving core.literal_value" if not leaking else
                   f"an exception raised by this {kind} (ZeroDivisionError, TypeError, ...) leaves core.literal_value unconverted: the formatter crashes instead of treating the expression as unknown")
    # external call sites handle the signal
    for f, c in ev.call_sites():
        h = caught(c, f, SIGNAL)
        res.decide(h is not None, rule, f.loc(c), f.fq, short(parent(c) if isinstance(parent(c), ast.stmt) else c, 80),
                   f"inside try/except {handler_names(h) if h else ''}" if h is not None else
                   "call of literal_value outside any handler that covers ValueError: 'unknown' becomes a crash")
    # calls that bypass the converting entry: an inner function of the evaluator lets foreign exceptions out
    for f, c, callee in ev.raw_call_sites():
        if not esc.get(callee.key):
            res.ok(rule, f.loc(c), f.fq, short(c, 80), f"{callee.name} converts foreign exceptions itself")
            continue
        h = caught(c, f, "Exception")
        res.decide(h is not None, rule, f.loc(c), f.fq, short(parent(c) if isinstance(parent(c), ast.stmt) else c, 80),
                   f"inside try/except {handler_names(h)}" if h is not None else
                   f"{callee.fq} is called directly, bypassing {ev.entry.name}, which is what turns ZeroDivisionError / TypeError / OverflowError of the "
                   "evaluated operations into the 'unknown' signal: here they escape and the formatter crashes")


# ------------------------------------------------------------------------------------------------ R15.3
def _r15_3(prog: Program, res: Result, ev: Evaluator) -> None:
    from ..model import ConstEval
    sets = ev.builtin_guard_sets()
    if not sets:
        res.undecided("R15.3", ev.entry.loc(), ev.entry.fq, "builtin whitelist", "no dispatch guard / precondition found")
    for f, expr, role in sets:
        try:
            value = ConstEval(prog, f.mod).ev(expr)
            names = {x for x in value if isinstance(x, str)}
        except Unresolvable as error:
            res.undecided("R15.3", f.loc(expr), f.fq, f"{role}: {norm(expr)}", f"set not resolvable: {error}")
            continue
        bad = sorted(names & IMPURE)
        res.decide(not bad, "R15.3", f.loc(expr), f.fq, f"{role}: {norm(expr)}",
                   f"{len(names)} names, none impure" if not bad else
                   f"{len(bad)} impure builtin(s) may be " + ("invoked while refactoring" if role == "dispatch guard" else "considered effect-free") + f": {bad[:12]}")
    # getattr(builtins, X)(..): X must be the guarded name
    for f, c, kind in ev.primitive_sites():
        if kind == "builtin call":
            guard_ok = ev.dispatch_guards(f, c)[0]
            res.decide(guard_ok, "R15.3", f.loc(c), f.fq, short(c, 70), "the callee name is known to be in a whitelist where the builtin is looked up" if guard_ok
                       else "builtin invoked without a whitelist test of its name on every path")


# ------------------------------------------------------------------------------------------------ R15.4
def _r15_4(prog: Program, res: Result, ev: Evaluator) -> None:
    seen_handlers = set()
    for f, c in ev.call_sites():
        h = caught(c, f, SIGNAL)
        if h is None or id(h) in seen_handlers:
            continue  # reported by R15.2 / already judged
        seen_handlers.add(id(h))
        text = f"handler for {short(c, 50)}"
        problems = []
        pa = None
        for n in walk_body(h.body):
            if isinstance(n, (ast.Yield, ast.YieldFrom)):
                # `unknown` means: may raise, may be NaN, may be an object with its own __eq__ / __bool__.  No rewrite that
                # asserts a value or deletes the construct follows from it - not even for an effect-free expression
                # (`1/0 == 1/0` raises, `nan == nan` is False).
                problems.append(f"line {n.lineno}: a rewrite is yielded although the evaluator gave no value (`{short(n, 60)}`)")
            if isinstance(n, ast.Call) and isinstance(n.func, ast.Attribute) and n.func.attr in ("add", "append", "update", "extend") \
                    and isinstance(n.func.value, ast.Name) and any(k in n.func.value.id.lower() for k in ("remov", "delet", "redundant", "replac")):
                problems.append(f"line {n.lineno}: adds to {n.func.value.id} on unknown")
        res.decide(not problems, "R15.4", f.loc(h), f.fq, text,
                   "; ".join(problems) if problems else "unknown leaves the construct untouched (continue / pass / conservative constant / recorded as unknown)")


# ------------------------------------------------------------------------------------------------ R15.5
def _r15_5(prog: Program, res: Result, ev: Evaluator) -> None:
    found = 0
    for f in ev.members:
        for n in walk_own(f.node):
            if isinstance(n, ast.If) and isinstance(n.test, ast.Call) and isinstance(n.test.func, ast.Name) and n.test.func.id == "isinstance" \
                    and len(n.test.args) == 2 and norm(n.test.args[0]).endswith(".op") and norm(n.test.args[1]) in ("ast.And", "ast.Or"):
                ctx = norm(n.test.args[1]).split(".")[1]
                loop = next((s for s in n.body if isinstance(s, ast.For)), None)
                if loop is None:
                    continue
                found += 1
                # for value in node.values: result = literal_value(value); if <test on result>: return result ; return result
                it_ok = norm(loop.iter).endswith(".values")
                inner_if = next((s for s in loop.body if isinstance(s, ast.If)), None)
                var = None
                for s in loop.body:
                    if isinstance(s, ast.Assign) and isinstance(s.targets[0], ast.Name) and isinstance(s.value, ast.Call):
                        var = s.targets[0].id
                problems = []
                if not it_ok:
                    problems.append("does not iterate all operands in order")
                if inner_if is None or var is None:
                    problems.append("no early return on a deciding operand")
                else:
                    t = inner_if.test
                    exits_on_falsy = isinstance(t, ast.UnaryOp) and isinstance(t.op, ast.Not) and norm(t.operand) == var
                    exits_on_truthy = isinstance(t, ast.Name) and t.id == var
                    want_falsy = ctx == "And"
                    if not ((want_falsy and exits_on_falsy) or (not want_falsy and exits_on_truthy)):
                        problems.append(f"`{ctx.lower()}` must stop at the first {'falsy' if want_falsy else 'truthy'} operand, the test is `{norm(t)}`")
                    ret = inner_if.body[-1] if inner_if.body else None
                    if not (isinstance(ret, ast.Return) and norm(ret.value) == var):
                        problems.append("early exit does not return the deciding operand's value")
                after = n.body[n.body.index(loop) + 1:] if loop in n.body else []
                if not (after and isinstance(after[0], ast.Return) and norm(after[0].value) == var):
                    problems.append("does not return the last operand's value when no operand decides")
                res.decide(not problems, "R15.5", f.loc(n), f.fq, f"short-circuit {ctx}", "; ".join(problems) or
                           f"returns the first {'falsy' if ctx == 'And' else 'truthy'} operand value, else the last")
    if found == 0:
        res.undecided("R15.5", ev.entry.loc(), ev.entry.fq, "short-circuit evaluation", "branches not found in the recognised shape")
    # `not`
    for f in ev.members:
        for n in walk_own(f.node):
            if isinstance(n, ast.Return) and isinstance(n.value, ast.UnaryOp) and isinstance(n.value.op, ast.Not) \
                    and isinstance(n.value.operand, ast.Call) and norm(n.value.operand.args[0] if n.value.operand.args else None).endswith(".operand"):
                res.ok("R15.5", f.loc(n), f.fq, norm(n), "`not` of the evaluated operand")


# ------------------------------------------------------------------------------------------------ R15.7
def _r15_7(prog: Program, res: Result, ev: Evaluator) -> None:
    """A call `len(x)` in the analysed program means the builtin only if the program does not rebind `len`.  Where the
    evaluator turns a callee NAME into the builtin of that name, the path must carry a test of that name against the
    names the analysed module binds (a parameter / collection of defined or shadowed names) - the whitelist of pure
    builtins alone says nothing about the program at hand."""
    for f, c, kind in ev.primitive_sites():
        if kind != "builtin call":
            continue
        ok_any, subject = False, "?"
        for alt in ev.guard_sites(f, c, kind):
            ok = bool(alt)
            for g, at, e, subst in alt:
                if len(e.args) < 2:
                    ok = False
                    continue
                subject = subst.get(norm(e.args[1]), norm(e.args[1]))
                worlds = _pa(prog, g).worlds_at(at)
                ok = ok and bool(worlds)
                for w in worlds:
                    has = False
                    for fct in w.facts:
                        if fct[0] != "lit":
                            continue
                        txt = plain(fct[1])
                        # `<name> not in <scope names>` / `<name> in <scope names>` false, where the collection is not a constants.* table
                        if subject in txt and (" in " in txt or txt.startswith("in(")) and "constants." not in txt and "builtins" not in txt:
                            has = has or (not fct[2])
                    ok = ok and has
            ok_any = ok_any or ok
        res.decide(ok_any, "R15.7", f.loc(c), f.fq, f"{short(c, 70)} # {kind}",
                   "reached only for names the analysed module does not rebind" if ok_any else
                   f"`{subject}` is resolved to the builtin without any test against the names the analysed module binds: with `def len(x): return 5` "
                   "in the module, `len([1]) == 1` is still folded to True")


# ------------------------------------------------------------------------------------------------ R15.6
def _r15_6(prog: Program, res: Result, ev: Evaluator) -> None:
    """A call is evaluated from its positional arguments only if it is known to have no keyword arguments
    (or the keywords are passed on): int("10", base=2) is not int("10")."""
    for f, c, kind in ev.primitive_sites():
        if kind not in ("builtin call", "method call on evaluated receiver"):
            continue
        passes_kwargs = any(k.arg is None for k in c.keywords)
        ok_any = passes_kwargs
        for alt in ([] if passes_kwargs else ev.guard_sites(f, c, kind)):
            ok = bool(alt)
            for g, at, _e, _subst in alt:
                worlds = _pa(prog, g).worlds_at(at)
                ok = ok and bool(worlds)
                for w in worlds:
                    has = False
                    for fct in w.facts:
                        if fct[0] != "lit":
                            continue
                        txt = plain(fct[1]).replace(" ", "")
                        if fct[2] and "match_template(" in txt and "keywords=[]" in txt:
                            has = True   # selected by a template that demands an empty keyword list
                        if not fct[2] and txt.endswith(".keywords"):
                            has = True   # `if node.keywords: <leave>` / `not node.keywords`
                    ok = ok and has
            ok_any = ok_any or ok
        why = "keywords are forwarded" if passes_kwargs else "performed only for calls without keyword arguments" if ok_any else \
            "the call is evaluated from its positional arguments although it may carry keyword arguments, which are dropped: the value differs from Python's (int('10', base=2), sorted(x, reverse=True), max(x, key=...))"
        res.decide(ok_any, "R15.6", f.loc(c), f.fq, f"{short(c, 70)} # {kind}", why)


# ---------------------------------------------------------------------------------------------- self-test
from ..selftest import Variant  # noqa: E402

VARIANTS = [
    Variant("dunder-methods-of-constants-called", "FIRE", "core",
            "        if node.func.attr.startswith(\"_\"):\n            # \"a\".__hash__() is hash(\"a\"), which is another number in every process\n            raise ValueError(\"The value may say something about the process rather than the constant\")\n", "", "R15.16"),
    Variant("only-the-hash-method-refused", "FIRE", "core",
            "        if node.func.attr.startswith(\"_\"):\n            # \"a\".__hash__()", "        if node.func.attr == \"__hash__\":\n            # \"a\".__hash__()", "R15.16"),
    Variant("dunder-methods-refused-by-two-underscores", "SILENT", "core",
            "        if node.func.attr.startswith(\"_\"):\n            # \"a\".__hash__()", "        if node.func.attr.startswith('__'):\n            # \"a\".__hash__()"),
    Variant("ranges-of-any-length-built-for-comparisons", "FIRE", "core", "    if function_name == \"range\" and not is_method and all(type(arg) is int for arg in args):\n", "    if False and function_name == \"range\" and not is_method:\n", "R15.12",
            extra=[("core", "        return bool(args) and (len(args) > 3 or (len(args) == 3 and args[2] == 0) or len(range(*args)) > limit)\n", "        return False\n")]),
    Variant("operators-applied-without-cost-bound", "FIRE", "core", "        if _is_too_large_to_compute(node.op, left, right):\n            raise ValueError(\"The value is too large to be computed while formatting\")\n", "", "R15.12"),
    Variant("builtins-called-without-cost-bound", "FIRE", "core", "            if _is_too_costly_to_call(node.func.id, args, is_method=False):\n                raise ValueError(\"The value is too large to be computed while formatting\")\n", "", "R15.12"),
    Variant("cost-bound-asked-after-the-computation", "FIRE", "core", "        if _is_too_costly_to_call(node.func.attr, args, is_method=True):\n            raise ValueError(\"The value is too large to be computed while formatting\")\n        return getattr(node_value, node.func.attr)(*args)\n", "        result = getattr(node_value, node.func.attr)(*args)\n        if _is_too_costly_to_call(node.func.attr, args, is_method=True):\n            raise ValueError(\"The value is too large to be computed while formatting\")\n        return result\n", "R15.12"),
    Variant("set-order-revealed-to-builtins", "FIRE", "core",
            "            if _reveals_set_order(node.func.id, args):\n                raise ValueError(\"The order of a set is not the same in every process\")\n", "", "R15.9"),
    Variant("set-order-test-inline-and-shallow", "FIRE", "core",
            "            if _reveals_set_order(node.func.id, args):\n                raise ValueError(\"The order of a set is not the same in every process\")\n",
            "            if any(isinstance(arg, (set, frozenset)) for arg in args):\n                raise ValueError(\"The order of a set is not the same in every process\")\n", "R15.9"),
    Variant("set-test-does-not-look-inside-containers", "FIRE", "core",
            "    return function_name not in order_blind and any(_holds_set(arg) for arg in args)\n",
            "    return function_name not in order_blind and any(isinstance(arg, (set, frozenset)) for arg in args)\n", "R15.9"),
    Variant("binary-operations-not-tested-for-sets", "FIRE", "core",
            "        if _formats_a_set(node.op, left, right):\n            raise ValueError(\"The order of a set is not the same in every process\")\n", "", "R15.9"),
    Variant("sum-exempt-from-the-set-order-fence", "FIRE", "core", 'order_blind = {"len", "sorted", "min", "max", "any"', 'order_blind = {"len", "sorted", "min", "max", "sum", "any"', "R15.14"),
    Variant("evaluated-values-remembered-by-their-dump", "FIRE", "core", "        return _literal_value(node)\n    except ValueError:\n        raise\n",
            "        key = ast.dump(node)\n        if key not in _KNOWN_VALUES:\n            _KNOWN_VALUES[key] = _literal_value(node)\n        return _KNOWN_VALUES[key]\n    except ValueError:\n        raise\n", "R15.13",
            extra=[("core", "def _reveals_set_order(", "_KNOWN_VALUES = {}\n\n\ndef _reveals_set_order(")]),
    Variant("builtin-call-tested-against-rebound-names", "SILENT", "core",
            "        if isinstance(node.func, ast.Name) and node.func.id in constants.PURE_BUILTIN_FUNCTIONS:\n            args = [literal_value(arg) for arg in node.args]",
            "        if isinstance(node.func, ast.Name) and node.func.id in constants.PURE_BUILTIN_FUNCTIONS and node.func.id not in REBOUND_NAMES:\n            args = [literal_value(arg) for arg in node.args]",
            extra=[("core", "DEFAULT_IGNORE = frozenset(", "REBOUND_NAMES = set()\nDEFAULT_IGNORE = frozenset(")]),
    Variant("is-blocking-calls-the-raw-evaluator", "FIRE", "core",
            "            branch = node.body if literal_value(node.test) else node.orelse", "            branch = node.body if _literal_value(node.test) else node.orelse", "R15.2"),
    Variant("table-lt-is-le", "FIRE", "constants", "    ast.Lt: operator.lt,\n", "    ast.Lt: operator.le,\n", "R15.1"),
    Variant("table-in-swapped", "FIRE", "constants", "    ast.In: lambda x, y: x in y,\n", "    ast.In: lambda x, y: y in x,\n", "R15.1"),
    Variant("table-in-operator-contains", "FIRE", "constants", "    ast.In: lambda x, y: x in y,\n", "    ast.In: operator.contains,\n", "R15.1"),
    Variant("table-floordiv-truediv", "FIRE", "constants", "    ast.FloorDiv: operator.floordiv,\n", "    ast.FloorDiv: operator.truediv,\n", "R15.1"),
    Variant("binop-operands-swapped", "FIRE", "core",
            "        return constants.COMPARISON_OPERATORS[type(node.op)](left, right)", "        return constants.COMPARISON_OPERATORS[type(node.op)](right, left)", "R15.1"),
    Variant("and-stops-at-truthy", "FIRE", "core",
            "            for value in node.values:\n                result = literal_value(value)\n                if not result:\n                    return result\n",
            "            for value in node.values:\n                result = literal_value(value)\n                if result:\n                    return result\n", "R15.5"),
    Variant("consumer-drops-handler", "FIRE", "fixes",
            "        try:\n            value = core.literal_value(node.test)\n        except ValueError:\n            continue\n\n        if _has_yield(node):",
            "        value = core.literal_value(node.test)\n\n        if _has_yield(node):", "R15.2"),
    Variant("consumer-yields-on-unknown", "FIRE", "fixes",
            "            try:\n                deterministic_value = core.literal_value(value)\n            except ValueError:\n                mask.append(unknown)",
            "            try:\n                deterministic_value = core.literal_value(value)\n            except ValueError:\n                mask.append(unknown)\n                yield value, None", "R15.4"),
    Variant("impure-builtin-whitelisted", "FIRE", "constants", "PURE_BUILTIN_FUNCTIONS = frozenset({\n    \"abs\",", "PURE_BUILTIN_FUNCTIONS = frozenset({\n    \"print\",\n    \"abs\",", "R15.3"),
    Variant("whitelist-back-to-all-builtins", "FIRE", "core",
            "        if isinstance(node.func, ast.Name) and node.func.id in constants.PURE_BUILTIN_FUNCTIONS:",
            "        if isinstance(node.func, ast.Name) and node.func.id in constants.BUILTIN_FUNCTIONS:", "R15.3"),
    Variant("wrapper-reraises-everything", "FIRE", "core",
            "    except Exception as error:\n        raise ValueError(f\"Cannot find a deterministic value: {error!r}\") from error",
            "    except Exception as error:\n        raise", "R15.2"),
    Variant("keywords-dropped-again", "FIRE", "core",
            "    if isinstance(node, ast.Call) and not node.keywords:  # e.g. int(\"10\", base=2) is not int(\"10\")",
            "    if isinstance(node, ast.Call):", "R15.6"),
    Variant("false-condition-drops-only-its-clause", "FIRE", "fixes", "            if any_if_always_false:\n                comprehension_is_dead = True\n                break\n", "            if any_if_always_false:\n                any_comprehension_modified = True\n                continue\n", "R15.10"),
    Variant("dead-comprehension-unknown-conditions-not-excluded", "FIRE", "fixes", "        if unknown_conditions_before or any(\n            core.has_side_effect(iterable, safe_callables) for iterable in iterables_before\n        ):", "        if any(\n            core.has_side_effect(iterable, safe_callables) for iterable in iterables_before\n        ):", "R15.10"),
    Variant("dead-comprehension-iterables-not-tested", "FIRE", "fixes", "        if unknown_conditions_before or any(\n            core.has_side_effect(iterable, safe_callables) for iterable in iterables_before\n        ):", "        if unknown_conditions_before:", "R15.10"),
    Variant("dead-flag-reset-for-every-clause", "FIRE", "fixes", "            any_if_always_false = False\n            iterables_before.append(comprehension.iter)\n", "            any_if_always_false = False\n            comprehension_is_dead = False\n            iterables_before.append(comprehension.iter)\n", "R15.10"),
    Variant("dead-flag-set-in-the-false-branch-directly", "SILENT", "fixes", "                    any_if_always_false = True\n                    break\n", "                    any_if_always_false = True\n                    comprehension_is_dead = True\n                    break\n", "R15.10"),
    Variant("dead-if-with-yield-removed", "FIRE", "fixes", "        if _has_yield(node):\n            continue  # e.g. \"if False: yield\", which is there to make a generator\n\n        if isinstance(node, ast.While) and not value and not node.orelse:", "        if isinstance(node, ast.While) and not value and not node.orelse:", "R15.11"),
    Variant("yield-after-return-removed", "FIRE", "fixes", "                if not _has_yield(unreachable_node):  # e.g. \"return; yield\"\n                    yield unreachable_node, None, transaction", "                if unreachable_node:\n                    yield unreachable_node, None, transaction", "R15.11"),
    Variant("yield-search-looks-for-return", "FIRE", "fixes", "    return any(core.walk(node, (ast.Yield, ast.YieldFrom)))", "    return any(core.walk(node, (ast.Return,)))", "R15.11"),
    Variant("yield-search-written-inline", "SILENT", "fixes", "        if _has_yield(node):\n            continue  # e.g. \"if False: yield\", which is there to make a generator\n\n        if isinstance(node, ast.While) and not value and not node.orelse:", "        if any(core.walk(node, (ast.Yield, ast.YieldFrom))):\n            continue\n\n        if isinstance(node, ast.While) and not value and not node.orelse:", "R15.11"),
    Variant("same-text-on-both-sides-folded-to-true", "FIRE", "symbolic_math",
            "            right = core.literal_value(comparator)\n        except ValueError:\n            continue\n",
            "            right = core.literal_value(comparator)\n        except ValueError:\n            if isinstance(operator, ast.Eq) and core.unparse(node.left) == core.unparse(comparator) and not core.has_side_effect(node.left):\n                yield node, ast.Constant(value=True, kind=None)\n            continue\n", "R15.4"),
    Variant("whitelist-as-union", "SILENT", "core",
            "        if isinstance(node.func, ast.Name) and node.func.id in constants.PURE_BUILTIN_FUNCTIONS:",
            "        if isinstance(node.func, ast.Name) and node.func.id in (constants.PURE_BUILTIN_FUNCTIONS | frozenset({\"abs\"})):"),
    Variant("evaluator-memoised-by-node", "FIRE", "core", "def _literal_value(node: ast.AST) -> bool:", "@functools.lru_cache(maxsize=1000)\ndef _literal_value(node: ast.AST) -> bool:", "R15.13"),
    Variant("evaluated-values-collected-in-a-local-table", "SILENT", "core", "        args = [literal_value(arg) for arg in node.args]\n        if _reveals_set_order(node.func.attr, args):",
            "        values = {}\n        for position, arg in enumerate(node.args):\n            values[position] = literal_value(arg)\n        args = [values[position] for position in sorted(values)]\n        if _reveals_set_order(node.func.attr, args):"),
    Variant("builtin-results-memoised-by-value", "FIRE", "core",
            "            args = [literal_value(arg) for arg in node.args]\n            if _reveals_set_order(node.func.id, args):\n                raise ValueError(\"The order of a set is not the same in every process\")\n            if _is_too_costly_to_call(node.func.id, args, is_method=False):\n                raise ValueError(\"The value is too large to be computed while formatting\")\n            return getattr(builtins, node.func.id)(*args)",
            "            args = tuple(literal_value(arg) for arg in node.args)\n            if _reveals_set_order(node.func.id, args):\n                raise ValueError(\"The order of a set is not the same in every process\")\n            if _is_too_costly_to_call(node.func.id, args, is_method=False):\n                raise ValueError(\"The value is too large to be computed while formatting\")\n            return _memo_call(getattr(builtins, node.func.id), args)", "R15.8",
            extra=[("core", "def _literal_value(node: ast.AST) -> bool:", "@functools.lru_cache(maxsize=1000, typed=True)\ndef _memo_call(function, args):\n    return function(*args)\n\n\ndef _literal_value(node: ast.AST) -> bool:")]),
    Variant("table-eq-as-lambda", "SILENT", "constants", "    ast.Eq: operator.eq,\n", "    ast.Eq: lambda a, b: a == b,\n"),
    Variant("table-reordered", "SILENT", "constants", "    ast.Eq: operator.eq,\n    ast.NotEq: operator.ne,\n", "    ast.NotEq: operator.ne,\n    ast.Eq: operator.eq,\n"),
    Variant("consumer-catches-more", "SILENT", "fixes",
            "        try:\n            value = core.literal_value(node.test)\n        except ValueError:\n            continue\n\n        if _has_yield(node):",
            "        try:\n            value = core.literal_value(node.test)\n        except (ValueError, TypeError):\n            continue\n\n        if _has_yield(node):"),
]

META = {
    "design_ref": "DESIGN.md section 3, C15",
    "technique": "table check against reference operator semantics, constant-set evaluation of the builtin whitelist, exception-escape analysis, who-may-call rule for the raw evaluator, handler-shape check; set-order fence (deep test, reference table of order-blind callees), cost fence, lifetime of evaluated values, origin of the applied operator; path-condition fence on methods whose name comes from the analysed code",
    "level_text": ("Decides on the current source that the evaluator's operator table is Python's, that it applies "
                   "operators to operands in source order, that it can only invoke pure builtins, that every failure of "
                   "a foreign call becomes the 'unknown' signal and every consumer handles that signal without "
                   "rewriting, and that and/or short-circuit like Python. It does not decide the computed values "
                   "themselves (delegated to the Python operations it calls) nor evaluation cost."),
    "level_note": "Trusted: CPython ast/builtins; OPERATOR_REF and the IMPURE blacklist in sa/props/c15.py (a blacklist, so only certainly impure members are reported).",
}
