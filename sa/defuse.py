"""Small def-use helpers over one function body (flow-insensitive unless stated)."""
from __future__ import annotations

import ast
from typing import Dict, Iterator, List, Optional, Tuple

from .model import Func, walk_own, parent


_BINDINGS: Dict[int, Dict[str, List[Tuple[ast.AST, Optional[ast.AST]]]]] = {}


def bindings(fn: Func) -> Dict[str, List[Tuple[ast.AST, Optional[ast.AST]]]]:
    """name -> all bindings in fn's own body: (binding node, value expr or None if not a plain value)."""
    cached = _BINDINGS.get(id(fn.node))
    if cached is not None:
        return cached
    out: Dict[str, List[Tuple[ast.AST, Optional[ast.AST]]]] = {}

    def add(name, node, value):
        out.setdefault(name, []).append((node, value))

    for n in walk_own(fn.node):
        if isinstance(n, ast.Assign):
            for t in n.targets:
                for name in _target_names(t):
                    for b in _bind(t, n.value, n, name):
                        add(name, *b)
        elif isinstance(n, ast.AnnAssign) and n.value is not None:
            for name in _target_names(n.target):
                for b in _bind(n.target, n.value, n, name):
                    add(name, *b)
        elif isinstance(n, ast.AugAssign):
            if isinstance(n.target, ast.Name):
                add(n.target.id, n, None)
        elif isinstance(n, (ast.For, ast.AsyncFor)):
            for name in _target_names(n.target):
                add(name, n, None)
        elif isinstance(n, ast.NamedExpr):
            if isinstance(n.target, ast.Name):
                add(n.target.id, n, n.value)
        elif isinstance(n, (ast.With, ast.AsyncWith)):
            for item in n.items:
                if item.optional_vars is not None:
                    for name in _target_names(item.optional_vars):
                        add(name, n, None)
        elif isinstance(n, ast.ExceptHandler) and n.name:
            add(n.name, n, None)
        elif isinstance(n, (ast.Import, ast.ImportFrom)):
            for a in n.names:
                add((a.asname or a.name).split(".")[0], n, None)
        elif isinstance(n, (ast.FunctionDef, ast.AsyncFunctionDef, ast.ClassDef)):
            add(n.name, n, None)
    _BINDINGS[id(fn.node)] = out
    return out


def _target_names(t: ast.AST) -> List[str]:
    if isinstance(t, ast.Name):
        return [t.id]
    if isinstance(t, (ast.Tuple, ast.List)):
        return [n for e in t.elts for n in _target_names(e)]
    if isinstance(t, ast.Starred):
        return _target_names(t.value)
    return []


def assignments(fn: Func, name: str) -> List[Tuple[ast.AST, Optional[ast.AST]]]:
    return bindings(fn).get(name, [])


def _bind(target, value, stmt, name):
    if isinstance(target, ast.Name):
        if target.id == name:
            yield (stmt, value)
    elif isinstance(target, (ast.Tuple, ast.List)):
        if isinstance(value, (ast.Tuple, ast.List)) and len(value.elts) == len(target.elts) and not any(
                isinstance(x, ast.Starred) for x in list(target.elts) + list(value.elts)):
            for t, v in zip(target.elts, value.elts):
                yield from _bind(t, v, stmt, name)
        else:
            for i, t in enumerate(target.elts):
                if isinstance(t, ast.Starred):
                    t = t.value
                if isinstance(t, ast.Name) and t.id == name:
                    yield (stmt, ast.Subscript(value=value, slice=ast.Constant(value=i), ctx=ast.Load()))
                elif isinstance(t, (ast.Tuple, ast.List)):
                    yield from ((s, None) for s, _ in _bind(t, value, stmt, name))
    elif isinstance(target, ast.Starred):
        yield from ((s, None) for s, _ in _bind(target.value, value, stmt, name))


def is_reassigned(fn: Func, name: str) -> bool:
    return bool(assignments(fn, name))


def single_def(fn: Func, name: str) -> Optional[ast.AST]:
    """The value expression if `name` has exactly one plain binding in fn, else None."""
    defs = assignments(fn, name)
    if len(defs) == 1 and defs[0][1] is not None and name not in fn.all_params:
        return defs[0][1]
    return None


def uses(fn: Func, name: str) -> Iterator[ast.Name]:
    for n in walk_own(fn.node):
        if isinstance(n, ast.Name) and n.id == name and isinstance(n.ctx, ast.Load):
            yield n


def enclosing_stmt(node: ast.AST) -> Optional[ast.stmt]:
    while node is not None and not isinstance(node, ast.stmt):
        node = parent(node)
    return node


def enclosing_loops(node: ast.AST, stop: ast.AST) -> List[ast.AST]:
    out = []
    n = parent(node)
    while n is not None and n is not stop:
        if isinstance(n, (ast.For, ast.While, ast.AsyncFor)):
            out.append(n)
        n = parent(n)
    return out


def call_arg(call: ast.Call, index: int, name: str) -> Optional[ast.AST]:
    """The actual for positional index / keyword name (ignoring *args/**kwargs)."""
    for kw in call.keywords:
        if kw.arg == name:
            return kw.value
    pos = [a for a in call.args]
    if index < len(pos) and not any(isinstance(a, ast.Starred) for a in pos[: index + 1]):
        return pos[index]
    return None


def names_in(e: ast.AST) -> set:
    return {n.id for n in ast.walk(e) if isinstance(n, ast.Name)}
