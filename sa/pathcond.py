"""Path-condition must-analysis (DESIGN 2.5).

For one function, computes for every statement the set of *worlds* in which it can be reached.  A world is a
conjunction of formulas over atoms; an atom is the canonical text of a side-effect-free test expression in
which every variable carries the version (definition site) it had when the test was evaluated.  Facts are never
killed: an assignment or mutation gives the variable a new version, so older facts simply stop applying to the
current value.  The join of control-flow paths keeps the worlds apart (bounded), and merges by intersection
when the bound is hit; loops give every variable assigned in them a fresh version at the loop head.  The
analysis can therefore only lose facts: an obligation ``PC(site) |= phi`` that fails has a syntactic path on
which no recognised test establishes phi.

Collections: for every collection variable the *element facts* are the intersection, over all the sites that
put elements into it, of the facts known about the inserted element (flow-insensitive, computed by rounds).
Dicts additionally carry facts keyed by the shape of the key expression.
"""
from __future__ import annotations

import ast
import itertools
import re
from typing import Callable, Dict, FrozenSet, Iterable, List, Optional, Sequence, Set, Tuple

from .model import Func, Program, norm, parent, walk_own

MAX_WORLDS = 16
MUTATORS = {"append", "extend", "insert", "pop", "remove", "clear", "sort", "reverse", "update", "add",
            "discard", "setdefault", "popitem", "appendleft", "difference_update", "intersection_update"}
ADD_ONE = {"append", "add", "appendleft"}
ADD_MANY = {"extend", "update"}
PASS_THROUGH = {"sorted", "list", "set", "tuple", "reversed", "frozenset", "iter"}

# ---------------------------------------------------------------------------------------- formulas
Formula = tuple


def Lit(atom: str, pol: bool = True) -> Formula:
    return ("lit", atom, pol)


def And(*fs: Formula) -> Formula:
    out = []
    for f in fs:
        if f[0] == "and":
            out.extend(f[1])
        else:
            out.append(f)
    out = tuple(dict.fromkeys(out))
    return out[0] if len(out) == 1 else ("and", out)


def Or(*fs: Formula) -> Formula:
    out = []
    for f in fs:
        if f[0] == "or":
            out.extend(f[1])
        else:
            out.append(f)
    out = tuple(dict.fromkeys(out))
    return out[0] if len(out) == 1 else ("or", out)


TRUE: Formula = ("and", ())
FALSE: Formula = ("or", ())


def Not(f: Formula) -> Formula:
    if f[0] == "lit":
        return ("lit", f[1], not f[2])
    if f[0] == "and":
        return Or(*[Not(x) for x in f[1]]) if f[1] else FALSE
    return And(*[Not(x) for x in f[1]]) if f[1] else TRUE


def atoms_of(f: Formula, out: Optional[set] = None) -> set:
    out = set() if out is None else out
    if f[0] == "lit":
        out.add(f[1])
    else:
        for x in f[1]:
            atoms_of(x, out)
    return out


def evaluate(f: Formula, val: Dict[str, bool]) -> bool:
    if f[0] == "lit":
        return val[f[1]] == f[2]
    if f[0] == "and":
        return all(evaluate(x, val) for x in f[1])
    return any(evaluate(x, val) for x in f[1])


def subst(f: Formula, fn: Callable[[str], str]) -> Formula:
    if f[0] == "lit":
        return ("lit", fn(f[1]), f[2])
    return (f[0], tuple(subst(x, fn) for x in f[1]))


def show(f: Formula) -> str:
    if f[0] == "lit":
        return ("" if f[2] else "not ") + f[1]
    if not f[1]:
        return "TRUE" if f[0] == "and" else "FALSE"
    return "(" + (" and " if f[0] == "and" else " or ").join(show(x) for x in f[1]) + ")"


def entails(premises: Iterable[Formula], goal: Formula, max_atoms: int = 14) -> bool:
    """Brute-force propositional entailment (truth table over the atoms connected to the goal)."""
    premises = list(premises)
    goal_atoms = atoms_of(goal)
    if not goal_atoms:
        return evaluate(goal, {})
    rel_atoms = set(goal_atoms)
    rel: List[Formula] = []
    rest = [(p, atoms_of(p)) for p in premises]
    changed = True
    while changed:
        changed = False
        keep = []
        for p, a in rest:
            if a & rel_atoms:
                if len(rel_atoms | a) > max_atoms and p[0] != "lit":
                    continue  # dropping a premise can only lose entailments
                rel.append(p)
                if not a <= rel_atoms:
                    rel_atoms |= a
                    changed = True
            else:
                keep.append((p, a))
        rest = keep
    # unit literals fix their atoms
    fixed: Dict[str, bool] = {}
    for p in rel:
        if p[0] == "lit":
            if p[1] in fixed and fixed[p[1]] != p[2]:
                return True  # contradictory premises: unreachable
            fixed[p[1]] = p[2]
    free = sorted(rel_atoms - set(fixed))
    if len(free) > max_atoms + 4:
        free_goal = sorted(goal_atoms - set(fixed))
        rel = [p for p in rel if atoms_of(p) <= set(fixed) | set(free_goal)]
        free = free_goal
    compound = [p for p in rel if p[0] != "lit"]
    for bits in itertools.product((False, True), repeat=len(free)):
        val = dict(fixed)
        val.update(zip(free, bits))
        if all(evaluate(p, val) for p in compound) and not evaluate(goal, val):
            return False
    return True


# ---------------------------------------------------------------------------------------- placeholders
def PH(tag: str) -> str:
    return f"\x00{tag}\x00"


ELEM = PH("e")
_TOKEN = re.compile(r"(?<![A-Za-z0-9_#])([A-Za-z_][A-Za-z0-9_]*)#([A-Za-z0-9]+)")


def tokens(text: str) -> Set[str]:
    return {m.group(0) for m in _TOKEN.finditer(text)}


def replace_term(text: str, term: str, repl: str) -> str:
    if _TOKEN.fullmatch(term):
        return re.sub(r"(?<![A-Za-z0-9_#])" + re.escape(term) + r"(?![A-Za-z0-9_])", lambda m: repl, text)
    return text.replace(term, repl)


def plain(text: str) -> str:
    """Atom text without the version suffixes (for pattern tests on facts)."""
    return _TOKEN.sub(lambda m: m.group(1), text)


def world_has(w: "World", pol: bool, pred) -> bool:
    """Some literal fact of polarity pol whose plain text satisfies pred."""
    return any(f[0] == "lit" and f[2] == pol and pred(plain(f[1])) for f in w.facts)


def show_text(text: str) -> str:
    return re.sub("\x00(\\w+)\x00", r"$\1", text)


# ---------------------------------------------------------------------------------------- worlds
class World:
    __slots__ = ("facts", "ver", "alias", "extra", "compdef", "pending", "consts")

    def __init__(self):
        self.facts: FrozenSet[Formula] = frozenset()
        self.ver: Dict[str, str] = {}
        self.alias: Dict[str, Formula] = {}       # token of a boolean local -> formula it stands for
        self.extra: Dict[str, FrozenSet[Formula]] = {}   # collection token -> extra element templates
        self.compdef: Dict[str, Tuple[str, Formula]] = {}  # token B -> (token A, template PHI): B = {x in A | PHI}
        self.pending: Dict[str, FrozenSet[Formula]] = {}   # token y -> facts valid when y is not None
        self.consts: Dict[str, object] = {}                # token -> the constant it was bound to

    def clone(self) -> "World":
        w = World()
        w.facts = self.facts
        w.ver = dict(self.ver)
        w.alias = dict(self.alias)
        w.extra = dict(self.extra)
        w.compdef = dict(self.compdef)
        w.pending = dict(self.pending)
        w.consts = dict(self.consts)
        return w

    def add(self, *fs: Formula) -> None:
        new = set(self.facts)
        for f in fs:
            if f == TRUE:
                continue
            if f[0] == "and":
                new.update(f[1])
            else:
                new.add(f)
        self.facts = frozenset(new)

    def token(self, name: str) -> str:
        return f"{name}#{self.ver.get(name, '0')}"

    def consistent(self) -> bool:
        seen = {}
        if FALSE in self.facts:
            return False
        for f in self.facts:
            if f[0] == "lit":
                if seen.setdefault(f[1], f[2]) != f[2]:
                    return False
        return True


def join_worlds(worlds: Sequence[World], tag: str) -> World:
    ws = [w for w in worlds if w.consistent()] or list(worlds)
    m = ws[0].clone()
    for w in ws[1:]:
        m.facts = m.facts & w.facts
        for k in set(m.ver) | set(w.ver):
            if m.ver.get(k, "0") != w.ver.get(k, "0"):
                m.ver[k] = f"j{tag}"
        for d_m, d_w in ((m.alias, w.alias), (m.compdef, w.compdef)):
            for k in list(d_m):
                if d_w.get(k) != d_m[k]:
                    del d_m[k]
        for k in list(m.consts):
            if k not in w.consts or w.consts[k] != m.consts[k] or type(w.consts[k]) is not type(m.consts[k]):
                del m.consts[k]
        for d_m, d_w in ((m.extra, w.extra), (m.pending, w.pending)):
            for k in list(d_m):
                if k in d_w:
                    d_m[k] = d_m[k] & d_w[k]
                else:
                    del d_m[k]
    return m


class Flow:
    __slots__ = ("normal", "brk", "cont")

    def __init__(self, normal=None, brk=None, cont=None):
        self.normal: List[World] = normal or []
        self.brk: List[World] = brk or []
        self.cont: List[World] = cont or []


def assigned_names(nodes: Iterable[ast.AST]) -> Set[str]:
    """Names assigned or mutated (method mutators, attribute / item stores) anywhere in nodes."""
    out: Set[str] = set()
    todo = list(nodes)
    while todo:
        n = todo.pop()
        if isinstance(n, (ast.FunctionDef, ast.AsyncFunctionDef, ast.ClassDef)):
            out.add(n.name)
            continue
        if isinstance(n, ast.Lambda):
            continue
        if isinstance(n, ast.Name) and isinstance(n.ctx, (ast.Store, ast.Del)):
            out.add(n.id)
        elif isinstance(n, (ast.Attribute, ast.Subscript)) and isinstance(n.ctx, (ast.Store, ast.Del)):
            b = base_name(n)
            if b:
                out.add(b)
        elif isinstance(n, ast.Call) and isinstance(n.func, ast.Attribute) and n.func.attr in MUTATORS:
            b = base_name(n.func.value)
            if b:
                out.add(b)
        elif isinstance(n, (ast.Import, ast.ImportFrom)):
            for a in n.names:
                out.add((a.asname or a.name).split(".")[0])
        todo.extend(ast.iter_child_nodes(n))
    return out


def base_name(e: ast.AST) -> Optional[str]:
    while isinstance(e, (ast.Attribute, ast.Subscript)):
        e = e.value
    return e.id if isinstance(e, ast.Name) else None


def always_exits(body: Sequence[ast.stmt]) -> bool:
    return bool(body) and isinstance(body[-1], (ast.Return, ast.Raise, ast.Continue, ast.Break))


# ---------------------------------------------------------------------------------------- the analysis
class PathAnalysis:
    """Analyse one function.  Subclass / pass hooks to canonicalise check-specific atoms."""

    def __init__(self, prog: Program, fn: Func, term_hook=None, rounds: int = 4, elem_hook=None, max_worlds: int = MAX_WORLDS):
        self.prog, self.fn = prog, fn
        self.max_worlds = max_worlds
        self.term_hook = term_hook       # (expr, world, analysis) -> Optional[str]
        self.elem_hook = elem_hook       # (expr, world, analysis) -> Optional[dict placeholder-tag -> set[Formula]]
        self.rounds = rounds
        self.at_stmt: Dict[int, List[World]] = {}
        self.base_elem: Dict[str, Optional[Dict[str, FrozenSet[Formula]]]] = {}   # name -> tag -> templates
        self.base_keyed: Dict[str, Optional[Tuple[str, FrozenSet[Formula]]]] = {}  # dict name -> (key shape, templates)
        self._inserts: Dict[str, List[Optional[Dict[str, FrozenSet[Formula]]]]] = {}
        self._keyed: Dict[str, List[Optional[Tuple[str, FrozenSet[Formula]]]]] = {}
        self._ids = {}
        self.params = set(fn.all_params)
        # names bound by a plain store in this function (or an enclosing one for nested functions): only for those do we see
        # every writer; a module-level / enclosing collection is also filled by other calls and other functions
        self.own_names = {n.id for n in ast.walk(fn.node) if isinstance(n, ast.Name) and isinstance(n.ctx, ast.Store)}
        self._run()

    # -------------------------------------------------------------- ids / versions
    def nid(self, node: ast.AST) -> str:
        if isinstance(node, ast.comprehension):
            node = node.target
        return f"{getattr(node, 'lineno', 0)}x{getattr(node, 'col_offset', 0)}"

    def bump(self, w: World, name: str, node: ast.AST, kind: str = "a") -> str:
        w.ver[name] = f"{kind}{self.nid(node)}"
        return w.token(name)

    # -------------------------------------------------------------- canonical terms
    def term(self, e: ast.AST, w: World) -> str:
        def rebuild(node):
            if isinstance(node, list):
                return [rebuild(x) for x in node]
            if not isinstance(node, ast.AST):
                return node
            if self.term_hook is not None and isinstance(node, ast.expr):
                h = self.term_hook(node, w, self)
                if h is not None:
                    return ast.Name(id=h, ctx=ast.Load())
            if isinstance(node, ast.Name):
                return ast.Name(id=w.token(node.id), ctx=ast.Load())
            if isinstance(node, ast.Constant):
                return ast.Constant(value=node.value)
            return type(node)(**{f: rebuild(getattr(node, f, None)) for f in node._fields})

        try:
            return " ".join(ast.unparse(rebuild(e)).split())
        except Exception:
            return "?" + norm(e)

    # -------------------------------------------------------------- tests -> formulas
    def formula(self, test: ast.AST, w: World, pol: bool = True) -> Formula:
        f = self._formula(test, w)
        return f if pol else Not(f)

    def _formula(self, t: ast.AST, w: World) -> Formula:
        if isinstance(t, ast.UnaryOp) and isinstance(t.op, ast.Not):
            return Not(self._formula(t.operand, w))
        if isinstance(t, ast.BoolOp):
            parts = [self._formula(v, w) for v in t.values]
            return And(*parts) if isinstance(t.op, ast.And) else Or(*parts)
        if isinstance(t, ast.NamedExpr) and isinstance(t.target, ast.Name):
            tok = w.token(t.target.id)
            if tok in w.alias:
                return w.alias[tok]
            return Lit(tok)
        if isinstance(t, ast.Compare):
            parts = []
            left = t.left
            for op, right in zip(t.ops, t.comparators):
                parts.append(self._compare(left, op, right, w))
                left = right
            return And(*parts)
        if isinstance(t, ast.Constant):
            return TRUE if t.value else FALSE
        if isinstance(t, ast.Name):
            tok = w.token(t.id)
            if tok in w.alias:
                return w.alias[tok]
            return Lit(tok)
        if isinstance(t, ast.Call) and isinstance(t.func, ast.Name) and t.func.id == "bool" and len(t.args) == 1:
            return self._formula(t.args[0], w)
        return Lit(self.term(t, w))

    def _const_of(self, e: ast.AST, w: World):
        if isinstance(e, ast.Constant):
            return True, e.value
        if isinstance(e, ast.Name) and w.token(e.id) in w.consts:
            return True, w.consts[w.token(e.id)]
        return False, None

    def _compare(self, a: ast.AST, op: ast.cmpop, b: ast.AST, w: World) -> Formula:
        if isinstance(op, (ast.Eq, ast.NotEq, ast.Is, ast.IsNot)):
            ka, va = self._const_of(a, w)
            kb, vb = self._const_of(b, w)
            if ka and kb and not (isinstance(a, ast.Constant) and isinstance(b, ast.Constant)):
                same = (va == vb and type(va) is type(vb))
                return TRUE if same == isinstance(op, (ast.Eq, ast.Is)) else FALSE
        ta, tb = self.term(a, w), self.term(b, w)
        if isinstance(op, (ast.In, ast.NotIn)):
            return Lit(f"in({ta}, {tb})", isinstance(op, ast.In))
        if isinstance(op, (ast.Is, ast.IsNot)):
            return Lit(f"is({ta}, {tb})", isinstance(op, ast.Is))
        if isinstance(op, (ast.Eq, ast.NotEq)):
            x, y = sorted((ta, tb))
            return Lit(f"eq({x}, {y})", isinstance(op, ast.Eq))
        if isinstance(op, ast.Lt):
            return Lit(f"lt({ta}, {tb})")
        if isinstance(op, ast.Gt):
            return Lit(f"lt({tb}, {ta})")
        if isinstance(op, ast.LtE):
            return Lit(f"lt({tb}, {ta})", False)
        return Lit(f"lt({ta}, {tb})", False)

    # -------------------------------------------------------------- assume
    def assume(self, w: World, test: ast.AST, pol: bool) -> World:
        w = w.clone()
        self._bump_walrus(w, test)
        f = self.formula(test, w, pol)
        w.add(f)
        self._assume_side_facts(w, test, pol)
        return w

    def _bump_walrus(self, w: World, expr: ast.AST) -> None:
        for n in ast.walk(expr):
            if isinstance(n, ast.NamedExpr) and isinstance(n.target, ast.Name):
                value_formula = self.formula(n.value, w) if self._testlike(n.value) else None
                tok = self.bump(w, n.target.id, n, "w")
                if value_formula is not None:
                    w.alias[tok] = value_formula
                self._pending_from_lookup(w, tok, n.value)

    def _assume_side_facts(self, w: World, test: ast.AST, pol: bool) -> None:
        """Facts implied by the outcome of test beyond its own formula."""
        # conjunctive parts that certainly hold
        for part, ppol in self._certain_parts(test, pol):
            # `if P:` false with P = {x for x in A if PHI}  =>  every element of A satisfies not PHI
            if isinstance(part, ast.Name) and not ppol:
                tok = w.token(part.id)
                cd = w.compdef.get(tok)
                if cd:
                    a_tok, phi = cd
                    w.extra[a_tok] = w.extra.get(a_tok, frozenset()) | {Not(phi)}
            # `any(PHI(x) for x in A)` false  =>  every element of A satisfies not PHI;  `all(PHI(x) for x in A)` true  =>  PHI
            if isinstance(part, ast.Call) and isinstance(part.func, ast.Name) and part.func.id in ("any", "all") and len(part.args) == 1 and not part.keywords \
                    and isinstance(part.args[0], (ast.GeneratorExp, ast.ListComp)) and len(part.args[0].generators) == 1 \
                    and (part.func.id == "any") == (not ppol):
                g = part.args[0].generators[0]
                if isinstance(g.target, ast.Name) and isinstance(g.iter, ast.Name) and not g.is_async:
                    a_tok = w.token(g.iter.id)
                    cw = w.clone()
                    tok = self.bump(cw, g.target.id, g, "i")
                    body = self.formula(part.args[0].elt, cw)
                    cond = And(*[self.formula(c, cw) for c in g.ifs]) if g.ifs else None
                    if part.func.id == "any":
                        phi = Not(body) if cond is None else Or(Not(cond), Not(body))
                    else:
                        phi = body if cond is None else Or(Not(cond), body)
                    w.extra[a_tok] = w.extra.get(a_tok, frozenset()) | {subst(phi, lambda s_: replace_term(s_, tok, ELEM))}
            # y is not None with y = D.get(K)
            if isinstance(part, ast.Compare) and len(part.ops) == 1 and isinstance(part.left, ast.Name) \
                    and isinstance(part.comparators[0], ast.Constant) and part.comparators[0].value is None:
                is_none = isinstance(part.ops[0], ast.Is) == ppol
                tok = w.token(part.left.id)
                if not is_none and tok in w.pending:
                    w.add(*w.pending[tok])
            if isinstance(part, ast.Name) and ppol:
                tok = w.token(part.id)
                if tok in w.pending:
                    w.add(*w.pending[tok])
            # K in D
            if isinstance(part, ast.Compare) and len(part.ops) == 1 and isinstance(part.ops[0], (ast.In, ast.NotIn)) \
                    and isinstance(part.comparators[0], ast.Name):
                positive = isinstance(part.ops[0], ast.In) == ppol
                coll = part.comparators[0].id
                if positive:
                    facts = self._keyed_lookup(w, coll, part.left)
                    if facts:
                        w.add(*facts)
                    ef = self.elem_facts(w, part.comparators[0])
                    if ef.get("e"):
                        t = self.term(part.left, w)
                        w.add(*[subst(f, lambda s: s.replace(ELEM, t)) for f in ef["e"]])

    def _certain_parts(self, test: ast.AST, pol: bool):
        if isinstance(test, ast.UnaryOp) and isinstance(test.op, ast.Not):
            yield from self._certain_parts(test.operand, not pol)
        elif isinstance(test, ast.BoolOp) and (isinstance(test.op, ast.And) == pol):
            for v in test.values:
                yield from self._certain_parts(v, pol)
        else:
            yield test, pol

    @staticmethod
    def _testlike(e: ast.AST) -> bool:
        return isinstance(e, (ast.Compare, ast.BoolOp, ast.Call, ast.Name)) or (
            isinstance(e, ast.UnaryOp) and isinstance(e.op, ast.Not)) or (
            isinstance(e, ast.Constant) and isinstance(e.value, bool))

    # -------------------------------------------------------------- element facts
    def elem_facts(self, w: World, e: ast.AST) -> Dict[str, FrozenSet[Formula]]:
        """tag -> templates; tags: 'e' whole element, '0','1',.. tuple components."""
        if self.elem_hook is not None:
            h = self.elem_hook(e, w, self)
            if h is not None:
                return h
        none: Dict[str, FrozenSet[Formula]] = {}
        if isinstance(e, ast.Name):
            out = dict(self.base_elem.get(e.id) or {})
            extra = w.extra.get(w.token(e.id))
            if extra:
                out["e"] = out.get("e", frozenset()) | extra
            return out
        if isinstance(e, ast.Call):
            d = self.prog.dotted(e.func)
            if d in PASS_THROUGH and e.args:
                return self.elem_facts(w, e.args[0])
            if d in ("core.filter_nodes", "filter_nodes") and e.args:
                return self.elem_facts(w, e.args[0])
            if d == "filter" and len(e.args) == 2:
                return self.elem_facts(w, e.args[1])
            if d == "enumerate" and e.args:
                inner = self.elem_facts(w, e.args[0])
                return {"1": inner["e"]} if inner.get("e") else none
            if d == "zip":
                out = {}
                for i, a in enumerate(e.args):
                    inner = self.elem_facts(w, a)
                    if inner.get("e"):
                        out[str(i)] = inner["e"]
                return out
            if isinstance(e.func, ast.Attribute):
                m, base = e.func.attr, e.func.value
                if m == "copy":
                    return self.elem_facts(w, base)
                if m in ("union",) and e.args:
                    return self._meet([self.elem_facts(w, base)] + [self.elem_facts(w, a) for a in e.args])
                if m in ("difference",) and e.args:
                    return self.elem_facts(w, base)
                if m in ("intersection",) and e.args:
                    return self._union([self.elem_facts(w, base)] + [self.elem_facts(w, a) for a in e.args])
                if isinstance(base, ast.Name):
                    b = self.base_elem.get(base.id) or {}
                    if m == "items":
                        return {"0": b.get("k", frozenset()), "1": b.get("v", frozenset())}
                    if m == "keys":
                        return {"e": b.get("k", frozenset())}
                    if m == "values":
                        return {"e": b.get("v", frozenset())}
            return none
        if isinstance(e, ast.Subscript) and isinstance(e.slice, ast.Slice):
            return self.elem_facts(w, e.value)
        if isinstance(e, ast.BinOp):
            if isinstance(e.op, ast.Sub):
                out = dict(self.elem_facts(w, e.left))
                if isinstance(e.right, ast.Name) and isinstance(e.left, ast.Name):
                    cd = w.compdef.get(w.token(e.right.id))
                    if cd and cd[0] == w.token(e.left.id):
                        out["e"] = out.get("e", frozenset()) | {Not(cd[1])}
                return out
            if isinstance(e.op, (ast.BitOr, ast.Add)):
                return self._meet([self.elem_facts(w, e.left), self.elem_facts(w, e.right)])
            if isinstance(e.op, ast.BitAnd):
                return self._union([self.elem_facts(w, e.left), self.elem_facts(w, e.right)])
            return none
        if isinstance(e, (ast.ListComp, ast.SetComp, ast.GeneratorExp)):
            cw = self.comp_world(w, e)
            return self._templates_for(cw, e.elt)
        if isinstance(e, (ast.List, ast.Set, ast.Tuple)):
            if not e.elts:
                return none
            return self._meet([self._templates_for(w, x) for x in e.elts])
        if isinstance(e, ast.IfExp):
            return self._meet([self.elem_facts(self.assume(w, e.test, True), e.body),
                               self.elem_facts(self.assume(w, e.test, False), e.orelse)])
        return none

    @staticmethod
    def _meet(ds: Sequence[Dict[str, FrozenSet[Formula]]]) -> Dict[str, FrozenSet[Formula]]:
        out = dict(ds[0])
        for d in ds[1:]:
            for k in list(out):
                if k in d:
                    out[k] = out[k] & d[k]
                else:
                    del out[k]
        return {k: v for k, v in out.items() if v}

    @staticmethod
    def _union(ds: Sequence[Dict[str, FrozenSet[Formula]]]) -> Dict[str, FrozenSet[Formula]]:
        out: Dict[str, FrozenSet[Formula]] = {}
        for d in ds:
            for k, v in d.items():
                out[k] = out.get(k, frozenset()) | v
        return out

    def _templates_for(self, w: World, x: ast.AST) -> Dict[str, FrozenSet[Formula]]:
        """Facts of world w about expression x, as templates (x -> ELEM; tuple components -> '0','1',..)."""
        out: Dict[str, FrozenSet[Formula]] = {}
        if isinstance(x, ast.Tuple):
            for i, c in enumerate(x.elts):
                sub = self._templates_for(w, c).get("e")
                if sub:
                    out[str(i)] = sub
            return out
        t = self.term(x, w)
        found = set()
        for f in w.facts:
            if any(t in a for a in atoms_of(f)):
                g = subst(f, lambda s: replace_term(s, t, ELEM))
                if any(ELEM in a for a in atoms_of(g)):
                    found.add(g)
        # an element that is itself drawn from a collection keeps that collection's facts
        if found:
            out["e"] = frozenset(found)
        return out

    def comp_world(self, w: World, comp: ast.AST, upto: Optional[ast.AST] = None) -> World:
        w = w.clone()
        for g in comp.generators:
            if upto is not None and self._contains(g.iter, upto):
                return w
            self.bind_iteration(w, g.target, g.iter, g)
            for c in g.ifs:
                if upto is not None and self._contains(c, upto):
                    return w
                w = self.assume(w, c, True)
        return w

    @staticmethod
    def _contains(tree: ast.AST, node: ast.AST) -> bool:
        return any(n is node for n in ast.walk(tree))

    def bind_iteration(self, w: World, target: ast.AST, it: ast.AST, site: ast.AST) -> None:
        ef = self.elem_facts(w, it)
        self._bind_target(w, target, ef, site)

    def _bind_target(self, w: World, target: ast.AST, ef: Dict[str, FrozenSet[Formula]], site: ast.AST) -> None:
        if isinstance(target, ast.Name):
            tok = self.bump(w, target.id, site, "i")
            for f in ef.get("e", ()):
                w.add(subst(f, lambda s: s.replace(ELEM, tok)))
        elif isinstance(target, (ast.Tuple, ast.List)):
            for i, t in enumerate(target.elts):
                sub = {"e": ef[str(i)]} if str(i) in ef else {}
                if isinstance(t, ast.Starred):
                    t, sub = t.value, {}
                self._bind_target(w, t, sub, site)
        else:
            b = base_name(target)
            if b:
                self.bump(w, b, site, "i")

    # -------------------------------------------------------------- keyed dict facts
    def _key_shape(self, w: World, key: ast.AST) -> Tuple[str, List[str]]:
        comps = key.elts if isinstance(key, ast.Tuple) else [key]
        terms = [self.term(c, w) for c in comps]
        return "|".join(PH(f"k{i}") for i in range(len(terms))), terms

    def _record_keyed(self, w_list: Sequence[World], name: str, key: ast.AST, value: Optional[ast.AST] = None) -> None:
        per_world = []
        shape = None
        for w in w_list:
            shape, terms = self._key_shape(w, key)
            vterm = self.term(value, w) if isinstance(value, ast.Name) else None
            tmpl = set()
            for f in w.facts:
                g = f
                for i, t in enumerate(terms):
                    g = subst(g, lambda s, t=t, i=i: replace_term(s, t, PH(f"k{i}")))
                if vterm is not None:
                    g = subst(g, lambda s: replace_term(s, vterm, PH("kv")))
                if g != f:
                    tmpl.add(g)
            per_world.append(frozenset(tmpl))
        if not per_world:
            return
        common = frozenset.intersection(*per_world)
        self._keyed.setdefault(name, []).append((f"{shape}", common))

    def _keyed_lookup(self, w: World, name: str, key: ast.AST, result_tok: Optional[str] = None) -> FrozenSet[Formula]:
        entry = self.base_keyed.get(name)
        if not entry:
            return frozenset()
        shape, templates = entry
        my_shape, terms = self._key_shape(w, key)
        if my_shape != shape:
            return frozenset()
        out = set()
        for f in templates:
            g = f
            for i, t in enumerate(terms):
                g = subst(g, lambda s, t=t, i=i: s.replace(PH(f"k{i}"), t))
            if result_tok is not None:
                g = subst(g, lambda s: s.replace(PH("kv"), result_tok))
            if any(PH("kv") in a for a in atoms_of(g)):
                continue
            out.add(g)
        return frozenset(out)

    def _pending_from_lookup(self, w: World, tok: str, value: ast.AST) -> None:
        if isinstance(value, ast.Call) and isinstance(value.func, ast.Attribute) and value.func.attr == "get" \
                and isinstance(value.func.value, ast.Name) and value.args:
            facts = self._keyed_lookup(w, value.func.value.id, value.args[0], tok)
            if facts and (len(value.args) == 1 or (isinstance(value.args[1], ast.Constant) and value.args[1].value is None)):
                w.pending[tok] = facts
        elif isinstance(value, ast.Subscript) and isinstance(value.value, ast.Name) and not isinstance(value.slice, ast.Slice):
            facts = self._keyed_lookup(w, value.value.id, value.slice, tok)
            if facts:
                w.add(*facts)

    # -------------------------------------------------------------- running
    def _run(self) -> None:
        for _ in range(self.rounds):
            self.at_stmt = {}
            self._inserts, self._keyed = {}, {}
            w0 = World()
            self.exec_block(self.fn.node.body, [w0])
            new_elem: Dict[str, Optional[Dict[str, FrozenSet[Formula]]]] = {}
            for name, entries in self._inserts.items():
                if name in self.params or name not in self.own_names or any(e is None for e in entries):
                    new_elem[name] = None
                    continue
                real = [e for e in entries if e != "EMPTY"]
                if not real:
                    new_elem[name] = {}
                    continue
                new_elem[name] = self._meet(real)
            new_keyed: Dict[str, Optional[Tuple[str, FrozenSet[Formula]]]] = {}
            for name, entries in self._keyed.items():
                shapes = {e[0] for e in entries if e is not None}
                if name in self.params or name not in self.own_names or any(e is None for e in entries) or len(shapes) != 1 \
                        or self._inserts_unknown(name):
                    new_keyed[name] = None
                    continue
                new_keyed[name] = (shapes.pop(), frozenset.intersection(*[e[1] for e in entries]))
            if new_elem == self.base_elem and new_keyed == self.base_keyed:
                break
            self.base_elem, self.base_keyed = new_elem, new_keyed

    def _inserts_unknown(self, name: str) -> bool:
        return any(e is None for e in self._inserts.get(name, []))

    def _cap(self, worlds: List[World], node: ast.AST) -> List[World]:
        # drop exact duplicates, then merge when over the bound
        uniq = {}
        for w in worlds:
            uniq.setdefault((w.facts, tuple(sorted(w.ver.items())), tuple(sorted(w.extra.items())),
                             tuple(sorted(w.compdef.items())), tuple(sorted(w.alias.items()))), w)
        worlds = list(uniq.values())
        if len(worlds) > self.max_worlds:
            return [join_worlds(worlds, self.nid(node))]
        return worlds

    def exec_block(self, body: Sequence[ast.stmt], worlds: List[World]) -> Flow:
        flow = Flow()
        cur = worlds
        for s in body:
            if not cur:
                break
            cur = self._cap(cur, s)
            self.at_stmt.setdefault(id(s), []).extend(cur)
            f = self.exec_stmt(s, cur)
            flow.brk += f.brk
            flow.cont += f.cont
            cur = f.normal
        flow.normal = cur
        return flow

    def exec_stmt(self, s: ast.stmt, worlds: List[World]) -> Flow:
        if isinstance(s, ast.If):
            out = Flow()
            for w in worlds:
                for pol, branch in ((True, s.body), (False, s.orelse)):
                    bw = self.assume(w, s.test, pol)
                    if not bw.consistent():
                        continue
                    f = self.exec_block(branch, [bw])
                    out.normal += f.normal
                    out.brk += f.brk
                    out.cont += f.cont
            return out
        if isinstance(s, (ast.For, ast.AsyncFor, ast.While)):
            return self._exec_loop(s, worlds)
        if isinstance(s, (ast.With, ast.AsyncWith)):
            ws = [w.clone() for w in worlds]
            for w in ws:
                for item in s.items:
                    self._bump_walrus(w, item.context_expr)
                    if item.optional_vars is not None:
                        self._bind_target(w, item.optional_vars, {}, item.context_expr)
            return self.exec_block(s.body, ws)
        if isinstance(s, ast.Try) or type(s).__name__ == "TryStar":
            return self._exec_try(s, worlds)
        if isinstance(s, ast.Match):
            out = Flow()
            for case in s.cases:
                ws = [w.clone() for w in worlds]
                for w in ws:
                    for n in assigned_names([case.pattern]):
                        self.bump(w, n, case, "m")
                    for n in ast.walk(case.pattern):
                        for nm in (getattr(n, "name", None), getattr(n, "rest", None)):
                            if isinstance(nm, str):
                                self.bump(w, nm, case, "m")
                f = self.exec_block(case.body, ws)
                out.normal += f.normal
                out.brk += f.brk
                out.cont += f.cont
            out.normal += [w.clone() for w in worlds]
            return out
        if isinstance(s, (ast.Return, ast.Raise)):
            return Flow()
        if isinstance(s, ast.Continue):
            return Flow(cont=list(worlds))
        if isinstance(s, ast.Break):
            return Flow(brk=list(worlds))
        if isinstance(s, (ast.FunctionDef, ast.AsyncFunctionDef, ast.ClassDef)):
            ws = [w.clone() for w in worlds]
            for w in ws:
                self.bump(w, s.name, s, "d")
            return Flow(normal=ws)
        if isinstance(s, ast.Assert):
            return Flow(normal=[self.assume(w, s.test, True) for w in worlds])
        # simple statements
        ws = [w.clone() for w in worlds]
        self._simple(s, ws)
        return Flow(normal=ws)

    def _exec_loop(self, s, worlds: List[World]) -> Flow:
        body_assigned = assigned_names(s.body) | (assigned_names([s.target]) if not isinstance(s, ast.While) else set())
        if isinstance(s, ast.While):
            body_assigned |= assigned_names([s.test])
        heads = []
        for w in worlds:
            h = w.clone()
            if not isinstance(s, ast.While):
                self._bump_walrus(h, s.iter)
            for n in sorted(body_assigned):
                self.bump(h, n, s, "l")
            heads.append(h)
        entries = []
        for h in heads:
            e = h.clone()
            if isinstance(s, ast.While):
                e = self.assume(e, s.test, True)
            else:
                self.bind_iteration(e, s.target, s.iter, s)
            entries.append(e)
        f = self.exec_block(s.body, [e for e in entries if e.consistent()])
        # normal exit of the loop: the head state (covers zero and more iterations)
        exits = []
        for h in heads:
            x = h.clone()
            if isinstance(s, ast.While):
                x = self.assume(x, s.test, False)
            if x.consistent():
                exits.append(x)
        after_else = self.exec_block(s.orelse, exits) if s.orelse else Flow(normal=exits)
        out = Flow(normal=after_else.normal + f.brk, brk=after_else.brk, cont=after_else.cont)
        return out

    def _exec_try(self, s, worlds: List[World]) -> Flow:
        out = Flow()
        body = self.exec_block(s.body, [w.clone() for w in worlds])
        for w in body.normal:
            self.try_body_exit(s, w)
        assigned = assigned_names(s.body)
        handler_entries = []
        for w in worlds:
            h = w.clone()
            for n in sorted(assigned):
                self.bump(h, n, s, "t")
            handler_entries.append(h)
        normal = []
        orelse = self.exec_block(s.orelse, body.normal) if s.orelse else Flow(normal=body.normal)
        normal += orelse.normal
        out.brk += body.brk + orelse.brk
        out.cont += body.cont + orelse.cont
        for h in s.handlers:
            ws = [w.clone() for w in handler_entries]
            if h.name:
                for w in ws:
                    self.bump(w, h.name, h, "x")
            f = self.exec_block(h.body, ws)
            normal += f.normal
            out.brk += f.brk
            out.cont += f.cont
        if s.finalbody:
            # finally runs on every path, including the abnormal ones
            f = self.exec_block(s.finalbody, normal + [w.clone() for w in handler_entries])
            n_norm = len(normal)
            out.normal = f.normal[: max(n_norm, 0)] if len(f.normal) >= n_norm else f.normal
            out.brk += f.brk
            out.cont += f.cont
        else:
            out.normal = normal
        return out

    def try_body_exit(self, s: ast.Try, w: World) -> None:
        """Hook: facts established by leaving the body of a try normally (no exception was raised in it)."""

    # -------------------------------------------------------------- simple statements
    def _simple(self, s: ast.stmt, ws: List[World]) -> None:
        if isinstance(s, ast.Assign):
            for w in ws:
                self._bump_walrus(w, s.value)
            for t in s.targets:
                self._assign(t, s.value, s, ws)
            return
        if isinstance(s, ast.AnnAssign):
            if s.value is not None:
                for w in ws:
                    self._bump_walrus(w, s.value)
                self._assign(s.target, s.value, s, ws)
            return
        if isinstance(s, ast.AugAssign):
            b = base_name(s.target)
            if isinstance(s.target, ast.Name) and isinstance(s.op, (ast.Add, ast.BitOr)):
                self._insert_many(s.target.id, s.value, ws)
            elif b:
                self._inserts.setdefault(b, []).append(None)
            for w in ws:
                self._bump_walrus(w, s.value)
                if b:
                    self.bump(w, b, s, "g")
            return
        if isinstance(s, ast.Delete):
            for w in ws:
                for t in s.targets:
                    b = base_name(t)
                    if b:
                        self.bump(w, b, s, "x")
            return
        if isinstance(s, (ast.Import, ast.ImportFrom)):
            for w in ws:
                for n in assigned_names([s]):
                    self.bump(w, n, s, "p")
            return
        if isinstance(s, ast.Expr):
            v = s.value
            for w in ws:
                self._bump_walrus(w, v)
            if isinstance(v, ast.Await):
                v = v.value
            if isinstance(v, ast.Call) and isinstance(v.func, ast.Attribute) and v.func.attr in MUTATORS:
                self._mutator_call(v, s, ws)
            return
        # Global, Nonlocal, Pass, ...: nothing

    def _mutator_call(self, call: ast.Call, s: ast.stmt, ws: List[World]) -> None:
        recv = call.func.value
        m = call.func.attr
        if isinstance(recv, ast.Name):
            name = recv.id
            if m in ADD_ONE and call.args:
                self._insert_one(name, call.args[0], ws)
            elif m == "insert" and len(call.args) == 2:
                self._insert_one(name, call.args[1], ws)
            elif m in ADD_MANY and call.args:
                self._insert_many(name, call.args[0], ws)
            elif m == "setdefault":
                self._inserts.setdefault(name, []).append(None)
                self._keyed.setdefault(name, []).append(None)
            # removals never add elements
        elif isinstance(recv, ast.Subscript) and isinstance(recv.value, ast.Name):
            # D[k].add(x): the values of D are collections; nothing is claimed about them
            self._inserts.setdefault(recv.value.id, []).append(None)
        b = base_name(recv)
        if b:
            for w in ws:
                self.bump(w, b, s, "u")

    def _insert_one(self, name: str, x: ast.AST, ws: List[World]) -> None:
        per_world = [self._templates_for(w, x) for w in ws if w.consistent()]
        if not per_world:
            return
        self._inserts.setdefault(name, []).append(self._meet(per_world) if per_world else {})

    def _insert_many(self, name: str, xs: ast.AST, ws: List[World]) -> None:
        per_world = [self.elem_facts(w, xs) for w in ws if w.consistent()]
        if not per_world:
            return
        if isinstance(xs, (ast.List, ast.Set, ast.Tuple)) and not xs.elts:
            self._inserts.setdefault(name, []).append("EMPTY")
            return
        self._inserts.setdefault(name, []).append(self._meet(per_world))

    def _assign(self, target: ast.AST, value: ast.AST, s: ast.stmt, ws: List[World]) -> None:
        if isinstance(target, ast.Name):
            name = target.id
            # --- collection bookkeeping (flow-insensitive insert table)
            if self._is_empty_collection(value):
                self._inserts.setdefault(name, []).append("EMPTY")
            elif self._is_collection_expr(value):
                per_world = [self.elem_facts(w, value) for w in ws if w.consistent()]
                if per_world:
                    self._inserts.setdefault(name, []).append(self._meet(per_world))
            else:
                self._inserts.setdefault(name, []).append(None)
            if isinstance(value, (ast.Dict, ast.DictComp)) or not self._is_empty_collection(value):
                if isinstance(value, ast.DictComp):
                    cws = [self.comp_world(w, value) for w in ws]
                    self._record_keyed(cws, name, value.key)
                    kt = [self._templates_for(cw, value.key).get("e", frozenset()) for cw in cws]
                    vt = [self._templates_for(cw, value.value).get("e", frozenset()) for cw in cws]
                    self._inserts[name][-1] = {k: v for k, v in (("k", frozenset.intersection(*kt)), ("v", frozenset.intersection(*vt))) if v}
                elif not (isinstance(value, ast.Dict) and not value.keys):
                    self._keyed.setdefault(name, []).append(None)
            for w in ws:
                formula = None
                if self._testlike(value) and not isinstance(value, ast.Name):
                    formula = self.formula(value, w)
                compdef = self._compdef_of(w, value)
                src_tok = w.token(value.id) if isinstance(value, ast.Name) else None
                tok = self.bump(w, name, s)
                if formula is not None:
                    w.alias[tok] = formula
                if compdef is not None:
                    w.compdef[tok] = compdef
                if src_tok is not None:
                    # copy: the facts of the source value hold for the copy as well
                    for f in list(w.facts):
                        if any(src_tok in a for a in atoms_of(f)):
                            w.add(subst(f, lambda t: replace_term(t, src_tok, tok)))
                    for d in (w.alias, w.compdef, w.extra, w.pending):
                        if src_tok in d:
                            d[tok] = d[src_tok]
                if isinstance(value, ast.Constant):
                    if isinstance(value.value, (str, int, bool, type(None))):
                        w.consts[tok] = value.value
                    w.add(Lit(tok, bool(value.value)))
                    if value.value is None:
                        w.add(Lit(f"is({tok}, None)"))
                elif self._is_empty_collection(value):
                    w.add(Lit(tok, False))
                elif isinstance(value, (ast.List, ast.Set, ast.Tuple, ast.Dict)) and (getattr(value, "elts", None) or getattr(value, "keys", None)):
                    w.add(Lit(tok, True))
                self._pending_from_lookup(w, tok, value)
            return
        if isinstance(target, (ast.Tuple, ast.List)):
            if isinstance(value, (ast.Tuple, ast.List)) and len(value.elts) == len(target.elts) \
                    and not any(isinstance(x, ast.Starred) for x in list(value.elts) + list(target.elts)):
                for t, v in zip(target.elts, value.elts):
                    self._assign(t, v, s, ws)
                return
            for n in assigned_names([target]):
                self._inserts.setdefault(n, []).append(None)
                for w in ws:
                    self.bump(w, n, s)
            return
        if isinstance(target, ast.Starred):
            self._assign(target.value, ast.Call(func=ast.Name(id="?unknown", ctx=ast.Load()), args=[], keywords=[]), s, ws)
            return
        if isinstance(target, ast.Subscript) and isinstance(target.value, ast.Name) and not isinstance(target.slice, ast.Slice):
            name = target.value.id
            self._record_keyed([w for w in ws if w.consistent()], name, target.slice, value)
            kt = [self._templates_for(w, target.slice).get("e", frozenset()) for w in ws if w.consistent()]
            vt = [self._templates_for(w, value).get("e", frozenset()) for w in ws if w.consistent()]
            if kt:
                entry = {k: v for k, v in (("k", frozenset.intersection(*kt)), ("v", frozenset.intersection(*vt))) if v}
                self._inserts.setdefault(name, []).append(entry)
            for w in ws:
                self.bump(w, name, s, "u")
            return
        b = base_name(target)
        if b:
            self._inserts.setdefault(b, []).append(None)
            self._keyed.setdefault(b, []).append(None)
            for w in ws:
                self.bump(w, b, s, "u")

    def _compdef_of(self, w: World, value: ast.AST) -> Optional[Tuple[str, Formula]]:
        if isinstance(value, (ast.SetComp, ast.ListComp)) and len(value.generators) == 1:
            g = value.generators[0]
            if isinstance(g.target, ast.Name) and isinstance(value.elt, ast.Name) and value.elt.id == g.target.id \
                    and isinstance(g.iter, ast.Name) and g.ifs and not g.is_async:
                a_tok = w.token(g.iter.id)
                cw = w.clone()
                tok = self.bump(cw, g.target.id, g, "i")
                phi = And(*[self.formula(c, cw) for c in g.ifs])
                return (a_tok, subst(phi, lambda s: replace_term(s, tok, ELEM)))
        return None

    def _is_empty_collection(self, v: ast.AST) -> bool:
        if isinstance(v, (ast.List, ast.Set, ast.Tuple)) and not v.elts:
            return True
        if isinstance(v, ast.Dict) and not v.keys:
            return True
        if isinstance(v, ast.Call) and not v.keywords:
            d = self.prog.dotted(v.func)
            if d in ("set", "list", "dict", "tuple", "frozenset", "collections.deque") and not v.args:
                return True
            if d in ("collections.defaultdict", "defaultdict", "collections.Counter", "collections.OrderedDict") and len(v.args) <= 1 \
                    and all(isinstance(a, (ast.Name, ast.Attribute, ast.Lambda)) for a in v.args):
                return True
        return False

    def _is_collection_expr(self, v: ast.AST) -> bool:
        if isinstance(v, (ast.ListComp, ast.SetComp, ast.GeneratorExp, ast.List, ast.Set, ast.Tuple)):
            return True
        if isinstance(v, ast.BinOp) and isinstance(v.op, (ast.Sub, ast.BitOr, ast.BitAnd, ast.Add)):
            return self._is_collection_expr(v.left) or self._is_collection_expr(v.right) or \
                (isinstance(v.left, ast.Name) and isinstance(v.right, ast.Name)
                 and (v.left.id in self._inserts or v.right.id in self._inserts or v.left.id in self.base_elem))
        if isinstance(v, ast.Call):
            d = self.prog.dotted(v.func)
            if d in PASS_THROUGH and v.args:
                a = v.args[0]
                return self._is_collection_expr(a) or isinstance(a, ast.Name)
            if d in ("core.filter_nodes", "filter_nodes", "filter"):
                return True
            if isinstance(v.func, ast.Attribute) and v.func.attr in ("copy", "union", "difference", "intersection") \
                    and isinstance(v.func.value, ast.Name):
                return True
        if isinstance(v, ast.Subscript) and isinstance(v.slice, ast.Slice):
            return True
        return False

    # -------------------------------------------------------------- queries
    def stmt_of(self, node: ast.AST) -> Optional[ast.stmt]:
        n = node
        while n is not None and not (isinstance(n, ast.stmt) and id(n) in self.at_stmt):
            if isinstance(n, ast.stmt) and n is not node and id(n) not in self.at_stmt:
                # a statement the analysis never reached
                pass
            n = parent(n)
        return n

    def worlds_at(self, node: ast.AST) -> List[World]:
        """Worlds in which node (a statement or an expression inside one) is evaluated."""
        # innermost enclosing statement
        s = node
        while s is not None and not isinstance(s, ast.stmt):
            s = parent(s)
        if s is None:
            return []
        base = self.at_stmt.get(id(s), [])
        if s is node:
            return base
        # walk down from the statement to the node collecting expression-level conditions
        chain = []
        n = node
        while n is not s:
            chain.append(n)
            n = parent(n)
        chain.reverse()
        out = []
        for w in base:
            cur = w
            prev = s
            for c in chain:
                p = prev
                if isinstance(p, ast.IfExp):
                    if c is p.body:
                        cur = self.assume(cur, p.test, True)
                    elif c is p.orelse:
                        cur = self.assume(cur, p.test, False)
                elif isinstance(p, ast.BoolOp):
                    idx = next(i for i, v in enumerate(p.values) if v is c)
                    for v in p.values[:idx]:
                        cur = self.assume(cur, v, isinstance(p.op, ast.And))
                elif isinstance(p, (ast.ListComp, ast.SetComp, ast.GeneratorExp, ast.DictComp)):
                    if not isinstance(c, ast.comprehension):
                        cur = self.comp_world(cur, p)
                    else:
                        idx = p.generators.index(c)
                        tmp = ast.copy_location(type(p)(**{**{f: getattr(p, f) for f in p._fields}, "generators": p.generators[:idx]}), p) if idx else None
                        if tmp is not None:
                            cur = self.comp_world(cur, tmp)
                elif isinstance(p, ast.comprehension):
                    if c is p.iter:
                        pass
                    else:
                        cur = cur.clone()
                        self.bind_iteration(cur, p.target, p.iter, p)
                        if c in p.ifs:
                            for prior in p.ifs[: p.ifs.index(c)]:
                                cur = self.assume(cur, prior, True)
                elif isinstance(p, (ast.If, ast.While)) and c is p.test:
                    pass
                prev = c
            if cur.consistent():
                out.append(cur)
        return out

    def holds_at(self, node: ast.AST, goal_of: Callable[[World], Formula]) -> Tuple[bool, List[str]]:
        """PC(node) |= goal in every world reaching node. Returns (ok, explanation lines)."""
        worlds = self.worlds_at(node)
        why = []
        ok = True
        for w in worlds:
            goal = goal_of(w)
            if not entails(w.facts, goal):
                ok = False
                rel = [show_text(show(f)) for f in w.facts if atoms_of(f) & atoms_of(goal)]
                why.append(f"world lacks {show_text(show(goal))}; related facts: {sorted(rel)[:6]}")
        return ok, why

    def reached(self, node: ast.AST) -> bool:
        return bool(self.worlds_at(node))

    def facts_text(self, node: ast.AST, mention: Optional[str] = None) -> List[List[str]]:
        out = []
        for w in self.worlds_at(node):
            fs = sorted(show_text(show(f)) for f in w.facts if mention is None or mention in show(f))
            out.append(fs)
        return out
