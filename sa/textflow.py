"""Provenance of text values: which expressions denote the whole module text, a slice of it, or its line list.

Flow-insensitive per function, interprocedural through (a) parameters that receive the whole text at some call
site (seeded by the first parameter of every @processing.fix rule and of the functions the pipeline calls with
the text) and (b) summaries "returns a whole text derived from its text parameter".
"""
from __future__ import annotations

import ast
from typing import Dict, List, Optional, Set, Tuple

from .defuse import assignments, bindings
from .model import Func, Program, norm, parent, walk_own

WHOLE, SLICE, LINES, CHARS, OTHER = "WHOLE", "SLICE", "LINES", "CHARS", "OTHER"

STR_WHOLE_METHODS = {"expandtabs", "replace", "translate", "strip", "rstrip", "lstrip", "lower", "upper", "format",
                     "encode", "decode", "removeprefix", "removesuffix", "ljust", "rjust", "center", "zfill", "casefold"}
LIB_WHOLE_FUNCS = {"re.sub": 2, "re.subn": 2, "rmspace.format_str": 0, "textwrap.dedent": 0, "textwrap.indent": 0,
                   "black.format_str": 0, "compactify.format_code": 0, "str": 0}


class TextFlow:
    def __init__(self, prog: Program):
        self.prog = prog
        self.whole_params: Dict[Tuple[str, str], Set[str]] = {}
        self.returns_whole: Set[Tuple[str, str]] = set()
        self._kinds: Dict[Tuple[str, str], Dict[str, str]] = {}
        self._seed()
        self._solve()

    # ------------------------------------------------------------------ seeds
    def _seed(self) -> None:
        for fn in self.prog.funcs.values():
            if fn.is_fix and fn.posparams:
                self.whole_params.setdefault(fn.key, set()).add(fn.posparams[0])
        for key in (("main", "format_code"),):
            fn = self.prog.funcs.get(key)
            if fn and fn.posparams:
                self.whole_params.setdefault(key, set()).add(fn.posparams[0])
        # the fix / chain closures
        for qual in ("fix.<locals>.fix_decorator.<locals>.wrapper", "chain.<locals>.func_chain"):
            fn = self.prog.funcs.get(("processing", qual))
            if fn and fn.posparams:
                self.whole_params.setdefault(fn.key, set()).add(fn.posparams[0])

    def _solve(self) -> None:
        for _ in range(8):
            changed = False
            self._kinds = {}
            for fn in self.prog.funcs.values():
                kinds = self.kinds(fn)
                # returns
                if fn.key not in self.returns_whole and not fn.is_generator:
                    rets = [n for n in walk_own(fn.node) if isinstance(n, ast.Return) and n.value is not None]
                    if rets and any(self.expr_kind(r.value, fn, kinds) == WHOLE for r in rets):
                        self.returns_whole.add(fn.key)
                        changed = True
                # propagate WHOLE actuals to callee parameters
                for call in self.prog.calls_in(fn):
                    r = self.prog.resolve_call(call.func, fn.mod, fn)
                    if not (r and r[0] == "fn"):
                        continue
                    target = r[1]
                    params = target.posparams
                    offset = 1 if target.cls and params and params[0] in ("self", "cls") else 0
                    for i, a in enumerate(call.args):
                        if isinstance(a, ast.Starred) or i + offset >= len(params):
                            break
                        if self.expr_kind(a, fn, kinds) == WHOLE:
                            s = self.whole_params.setdefault(target.key, set())
                            if params[i + offset] not in s:
                                s.add(params[i + offset])
                                changed = True
                    for kw in call.keywords:
                        if kw.arg and kw.arg in target.all_params and self.expr_kind(kw.value, fn, kinds) == WHOLE:
                            s = self.whole_params.setdefault(target.key, set())
                            if kw.arg not in s:
                                s.add(kw.arg)
                                changed = True
            if not changed:
                break

    # ------------------------------------------------------------------ per function
    def kinds(self, fn: Func) -> Dict[str, str]:
        if fn.key in self._kinds:
            return self._kinds[fn.key]
        kinds: Dict[str, str] = {p: WHOLE for p in self.whole_params.get(fn.key, ())}
        self._kinds[fn.key] = kinds
        for _ in range(5):
            changed = False
            for name, defs in bindings(fn).items():
                if kinds.get(name) == WHOLE:
                    continue
                new = kinds.get(name)
                for stmt, value in defs:
                    k = None
                    if value is not None:
                        k = self.expr_kind(value, fn, kinds)
                    elif isinstance(stmt, (ast.For, ast.AsyncFor)):
                        k = self._loop_var_kind(stmt, name, fn, kinds)
                    elif isinstance(stmt, ast.AugAssign) and isinstance(stmt.op, ast.Add):
                        k = kinds.get(name)
                    if k in (WHOLE, SLICE, LINES, CHARS):
                        new = _merge(new, k)
                if new != kinds.get(name) and new is not None:
                    kinds[name] = new
                    changed = True
            # list variables that collect characters/lines of the text
            for n in walk_own(fn.node):
                if isinstance(n, ast.Call) and isinstance(n.func, ast.Attribute) and n.func.attr in ("append", "extend") \
                        and isinstance(n.func.value, ast.Name) and n.args:
                    k = self.expr_kind(n.args[0], fn, kinds)
                    tgt = n.func.value.id
                    if k == CHARS and kinds.get(tgt) != CHARS:
                        kinds[tgt] = CHARS
                        changed = True
                    if k == LINES and kinds.get(tgt) != LINES and n.func.attr == "extend":
                        kinds[tgt] = LINES
                        changed = True
            if not changed:
                break
        return kinds

    def _loop_var_kind(self, loop: ast.For, name: str, fn: Func, kinds: Dict[str, str]) -> Optional[str]:
        it = loop.iter
        srcs = [it]
        if isinstance(it, ast.Call) and self.prog.dotted(it.func) in ("zip", "enumerate"):
            srcs = list(it.args)
            tgt = loop.target.elts if isinstance(loop.target, (ast.Tuple, ast.List)) else [loop.target]
            if self.prog.dotted(it.func) == "enumerate":
                tgt = tgt[1:]
            for t, s in zip(tgt, srcs):
                if isinstance(t, ast.Name) and t.id == name:
                    k = self.expr_kind(s, fn, kinds)
                    return CHARS if k == WHOLE else (SLICE if k == LINES else None)
            return None
        k = self.expr_kind(it, fn, kinds)
        if isinstance(loop.target, ast.Name) and loop.target.id == name:
            return CHARS if k == WHOLE else (SLICE if k == LINES else None)
        return None

    def expr_kind(self, e: ast.AST, fn: Func, kinds: Optional[Dict[str, str]] = None) -> str:
        kinds = kinds if kinds is not None else self.kinds(fn)
        if isinstance(e, ast.Name):
            return kinds.get(e.id, OTHER)
        if isinstance(e, ast.IfExp):
            a, b = self.expr_kind(e.body, fn, kinds), self.expr_kind(e.orelse, fn, kinds)
            return a if a == b else (WHOLE if WHOLE in (a, b) else OTHER)
        if isinstance(e, ast.Subscript):
            base = self.expr_kind(e.value, fn, kinds)
            if base == WHOLE:
                return SLICE if isinstance(e.slice, ast.Slice) else CHARS
            if base == LINES:
                return LINES if isinstance(e.slice, ast.Slice) else SLICE
            if base == SLICE and isinstance(e.slice, ast.Slice):
                return SLICE
            if isinstance(e.slice, ast.Constant) and e.slice.value == 0 and isinstance(e.value, ast.Call):
                return self.expr_kind(e.value, fn, kinds)  # (text, ...)[0]
            return OTHER
        if isinstance(e, ast.BinOp) and isinstance(e.op, ast.Add):
            if self.is_splice(e, fn, kinds):
                return WHOLE
            l, r = self.expr_kind(e.left, fn, kinds), self.expr_kind(e.right, fn, kinds)
            if WHOLE in (l, r):
                return WHOLE
            if LINES in (l, r):
                return LINES
            return OTHER
        if isinstance(e, ast.Call):
            d = self.prog.dotted(e.func)
            if isinstance(e.func, ast.Attribute):
                base = self.expr_kind(e.func.value, fn, kinds)
                m = e.func.attr
                if base == WHOLE and m in STR_WHOLE_METHODS:
                    return WHOLE
                if base == WHOLE and m == "splitlines":
                    return LINES
                if base == WHOLE and m == "split" and e.args and isinstance(e.args[0], ast.Constant) and e.args[0].value == "\n":
                    return LINES
                if m == "join" and e.args:
                    k = self.expr_kind(e.args[0], fn, kinds)
                    if k in (LINES, CHARS):
                        return WHOLE
                    if isinstance(e.args[0], (ast.GeneratorExp, ast.ListComp)):
                        g = e.args[0].generators[0]
                        if self.expr_kind(g.iter, fn, kinds) in (LINES, WHOLE):
                            return WHOLE
                if m in ("copy",) and base in (LINES, CHARS):
                    return base
                if m in ("read", "read_text") :
                    return WHOLE if not e.args else OTHER
            al = None
            if d:
                head = d.split(".")[0]
                al = fn.mod.aliases.get(head)
            lib = d
            if al and al[0] == "ext" and d:
                lib = ".".join([al[1]] + d.split(".")[1:])
            if lib in LIB_WHOLE_FUNCS:
                idx = LIB_WHOLE_FUNCS[lib]
                if idx < len(e.args) and self.expr_kind(e.args[idx], fn, kinds) == WHOLE:
                    return WHOLE
                return OTHER
            if d in ("list", "sorted", "reversed", "tuple") and e.args:
                k = self.expr_kind(e.args[0], fn, kinds)
                return CHARS if k == WHOLE and d == "list" else (k if k in (LINES, CHARS) else OTHER)
            r = self.prog.resolve_call(e.func, fn.mod, fn)
            if r and r[0] == "fn":
                target = r[1]
                if target.key == ("core", "get_code"):
                    return SLICE
                if target.key in self.returns_whole or (target.is_fix):
                    wp = self.whole_params.get(target.key, set())
                    params = target.posparams
                    for i, a in enumerate(e.args):
                        if i < len(params) and params[i] in wp and self.expr_kind(a, fn, kinds) == WHOLE:
                            return WHOLE
                    for kw in e.keywords:
                        if kw.arg in wp and self.expr_kind(kw.value, fn, kinds) == WHOLE:
                            return WHOLE
            # a local bound to processing.chain(...) applied to the text
            if isinstance(e.func, ast.Name) and e.args and self.expr_kind(e.args[0], fn, kinds) == WHOLE:
                defs = [v for _, v in assignments(fn, e.func.id)]
                if defs and all(isinstance(v, ast.Call) and self.prog.dotted(v.func) in ("processing.chain", "chain") for v in defs):
                    return WHOLE
            return OTHER
        if isinstance(e, (ast.ListComp, ast.GeneratorExp)):
            g = e.generators[0]
            k = self.expr_kind(g.iter, fn, kinds)
            if k == LINES:
                return LINES
            if k == WHOLE:
                return CHARS
            return OTHER
        if isinstance(e, ast.Starred):
            return self.expr_kind(e.value, fn, kinds)
        if isinstance(e, ast.Tuple) and e.elts:
            return self.expr_kind(e.elts[0], fn, kinds) if self.expr_kind(e.elts[0], fn, kinds) == WHOLE else OTHER
        if isinstance(e, ast.List):
            ks = [self.expr_kind(x, fn, kinds) for x in e.elts]
            if ks and all(k in (SLICE, LINES) for k in ks):
                return LINES
            return OTHER
        return OTHER

    # ------------------------------------------------------------------ splices
    def splice_parts(self, e: ast.AST) -> Optional[Tuple[ast.Subscript, List[ast.AST], ast.Subscript]]:
        """s[:a] + mid... + s[b:]  ->  (head subscript, middle operands, tail subscript)"""
        ops: List[ast.AST] = []

        def flat(x):
            if isinstance(x, ast.BinOp) and isinstance(x.op, ast.Add):
                flat(x.left)
                flat(x.right)
            else:
                ops.append(x)
        flat(e)
        if len(ops) < 2:
            return None
        h, t = ops[0], ops[-1]
        if isinstance(h, ast.Subscript) and isinstance(t, ast.Subscript) and isinstance(h.slice, ast.Slice) and isinstance(t.slice, ast.Slice) \
                and h.slice.lower is None and h.slice.upper is not None and t.slice.upper is None and t.slice.lower is not None \
                and norm(h.value) == norm(t.value):
            return h, ops[1:-1], t
        return None

    def is_splice(self, e: ast.AST, fn: Func, kinds: Optional[Dict[str, str]] = None) -> bool:
        p = self.splice_parts(e)
        if not p:
            return False
        kinds = kinds if kinds is not None else self.kinds(fn)
        return self.expr_kind(p[0].value, fn, kinds) == WHOLE


def _merge(a: Optional[str], b: str) -> str:
    if a is None or a == b:
        return b
    if WHOLE in (a, b):
        return WHOLE
    return a
