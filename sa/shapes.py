"""Template shapes: what a pyrefact matching template says about the LENGTH of the list fields of the nodes it selects.

A template is an expression of the analysed source (`ast.Call(func=.., args=[object], keywords=[])`, a tuple of
alternatives, a local bound to one, `core.Wildcard(name, T)`, `core.compile_template("pattern", ..)`).  It is read
into a small shape term; nothing of /repo is imported.

    ("any",)                                 nothing known
    ("node", {field: shape})                 an AST node with constraints on some fields
    ("list", minlen, exact)                  a list with at least minlen elements (exactly, if exact) + element shapes
    ("alts", [shape, ...])                   one of (a fact must hold for every alternative)

Used by C04 R4.q (constant-index access to possibly-empty list fields).
"""
from __future__ import annotations

import ast
import re
from typing import Dict, List, Optional, Tuple

from .defuse import bindings
from .model import Func, Program, norm

ANY = ("any",)
UNKNOWN = ("unknown",)      # the template could not be read: nothing may be concluded from it, not even that a field is open
QUANT = {"ZeroOrOne": 0, "ZeroOrMany": 0, "OneOrMany": 1}


def _ast_class(prog: Program, fn: Func, e: ast.AST) -> Optional[str]:
    d = prog.dotted(e)
    if d and "." in d:
        head, name = d.rsplit(".", 1)
        al = fn.mod.aliases.get(head)
        if al == ("ext", "ast") and hasattr(ast, name):
            return name
    return None


def shape_of_real(node) -> tuple:
    """Shape of a REAL syntax tree used as a template (compile_template of a pattern string)."""
    if isinstance(node, list):
        elems = [shape_of_real(x) for x in node]
        # a {{name*}} style placeholder statement / element makes the length open: recognised by the marker names
        open_ = any(_is_open_marker(x) for x in node)
        n = sum(0 if _is_open_marker(x) else 1 for x in node)
        return ("list", n, not open_, elems if not open_ else None)
    if isinstance(node, ast.AST):
        if isinstance(node, ast.Name) and node.id.startswith("__wild_"):
            return ANY
        if isinstance(node, ast.Expr) and isinstance(node.value, ast.Name) and node.value.id.startswith("__wild_"):
            return ANY
        return ("node", {f: shape_of_real(getattr(node, f)) for f in node._fields if isinstance(getattr(node, f, None), (list, ast.AST))})
    return ANY


def _is_open_marker(x) -> bool:
    n = x.value if isinstance(x, ast.Expr) else x
    if isinstance(n, ast.Starred):
        n = n.value
    return isinstance(n, ast.Name) and n.id.startswith("__wild_") and n.id.endswith(("_star", "_plus", "_opt"))


def _pattern_shape(text: str) -> tuple:
    def repl(m):
        suffix = {"*": "_star", "+": "_plus", "?": "_opt", "": ""}[m.group(2) or ""]
        name = re.sub(r"\W", "_", m.group(1))
        return f"__wild_{name}{suffix}"
    src = re.sub(r"\{\{\s*([\w.]+)\s*([*+?]?)\s*\}\}", repl, text)
    try:
        tree = ast.parse(src)
    except SyntaxError:
        return ANY
    if len(tree.body) == 1:
        st = tree.body[0]
        if isinstance(st, ast.Expr):
            # an expression pattern matches expressions (keep_expr aside): both readings must justify
            return ("alts", [shape_of_real(st), shape_of_real(st.value)])
        return shape_of_real(st)
    return ("list", len(tree.body), True, [shape_of_real(s) for s in tree.body])


class Shapes:
    def __init__(self, prog: Program, fn: Func):
        self.prog, self.fn = prog, fn

    # ------------------------------------------------------------------ template expression -> shape
    def shape(self, e: ast.AST, depth: int = 0, as_list_elem: bool = False) -> tuple:
        prog, fn = self.prog, self.fn
        if depth > 8 or e is None:
            return UNKNOWN
        if isinstance(e, ast.Name):
            if e.id == "object":
                return ANY
            defs = [v for (_s, v) in bindings(fn).get(e.id, [])]
            if defs and all(v is not None for v in defs):
                # several definitions: whichever reaches the use, every one must justify
                return self.shape(defs[0], depth + 1) if len(defs) == 1 else ("alts", [self.shape(v, depth + 1) for v in defs])
            if not defs and e.id in fn.mod.globals:
                return self.shape(fn.mod.globals[e.id], depth + 1)
            return UNKNOWN
        if isinstance(e, ast.Tuple):
            if not e.elts:
                return ANY
            return ("alts", [self.shape(x, depth + 1) for x in e.elts])
        if isinstance(e, ast.List):
            minlen, exact, elems = 0, True, []
            for x in e.elts:
                q = self._quant(x)
                if q is None:
                    minlen += 1
                    elems.append(self.shape(x, depth + 1))
                else:
                    minlen += q
                    exact = False
            return ("list", minlen, exact, elems if exact else None)
        if isinstance(e, (ast.Set, ast.SetComp)):
            return ("list", 0, False, None)      # {T1, T2}: any number of elements, each matching one of
        if isinstance(e, ast.Call):
            cls = _ast_class(prog, fn, e.func)
            if cls is not None:
                fields: Dict[str, tuple] = {}
                for kw in e.keywords:
                    if kw.arg:
                        fields[kw.arg] = self.shape(kw.value, depth + 1)
                return ("node", fields)
            d = (prog.dotted(e.func) or "").split(".")[-1]
            if d == "Wildcard":
                t = e.args[1] if len(e.args) > 1 else next((k.value for k in e.keywords if k.arg == "template"), None)
                if t is None:
                    return ANY
                if isinstance(t, ast.Name) and t.id in ("str", "int", "float", "bool", "bytes"):
                    return ANY
                if isinstance(t, ast.Name) and t.id == "list":
                    return ("list", 0, False, None)
                return self.shape(t, depth + 1)
            if d == "compile_template" and e.args:
                src = e.args[0]
                texts = []
                if isinstance(src, ast.Constant) and isinstance(src.value, str):
                    texts = [src.value]
                elif isinstance(src, (ast.Tuple, ast.Set)) and all(isinstance(x, ast.Constant) and isinstance(x.value, str) for x in src.elts):
                    texts = [x.value for x in src.elts]
                if not texts:
                    return UNKNOWN
                shapes = [_pattern_shape(t) for t in texts]
                return shapes[0] if len(shapes) == 1 else ("alts", shapes)
            if d in ("tuple", "list", "set", "frozenset") and len(e.args) == 1 and isinstance(e.args[0], (ast.GeneratorExp, ast.ListComp, ast.SetComp)):
                # tuple(T(k) for k in ..): alternatives that all have the shape of the element expression
                return self.shape(e.args[0].elt, depth + 1)
            return UNKNOWN
        if isinstance(e, ast.Attribute):
            return ANY if _ast_class(prog, fn, e) else UNKNOWN       # bare ast.K class reference: no field constraints
        if isinstance(e, ast.Constant):
            return ANY        # a literal value (None, a str): not a node with list fields
        return UNKNOWN

    def _quant(self, x: ast.AST) -> Optional[int]:
        if isinstance(x, ast.Call):
            d = (self.prog.dotted(x.func) or "").split(".")[-1]
            if d in QUANT:
                return QUANT[d]
        if isinstance(x, ast.Name):
            defs = [v for (_s, v) in bindings(self.fn).get(x.id, [])]
            if len(defs) == 1 and defs[0] is not None:
                return self._quant(defs[0])
        return None


# ------------------------------------------------------------------------------------------ navigation
def readable(shape: tuple) -> bool:
    if shape[0] == "unknown":
        return False
    if shape[0] == "alts":
        return all(readable(s) for s in shape[1])
    return True


def field(shape: tuple, name: str) -> tuple:
    if shape[0] == "unknown":
        return UNKNOWN
    if shape[0] == "node":
        return shape[1].get(name, ANY)
    if shape[0] == "alts":
        return ("alts", [field(s, name) for s in shape[1]])
    return ANY


def index(shape: tuple, i: int) -> tuple:
    if shape[0] == "unknown":
        return UNKNOWN
    if shape[0] == "list" and shape[2] and shape[3] is not None and -len(shape[3]) <= i < len(shape[3]):
        return shape[3][i]
    if shape[0] == "alts":
        return ("alts", [index(s, i) for s in shape[1]])
    return ANY


def min_len(shape: tuple) -> int:
    if shape[0] == "list":
        return shape[1]
    if shape[0] == "alts":
        return min((min_len(s) for s in shape[1]), default=0)
    return 0


def meet(a: tuple, b: tuple) -> tuple:
    """Both shapes are known to hold for the same value: combine what they say (lengths: the larger minimum)."""
    if a[0] in ("any", "unknown"):
        return b if b[0] != "any" or a[0] == "any" else a
    if b[0] in ("any", "unknown"):
        return a
    if a[0] == "alts" or b[0] == "alts":
        # keep it simple and sound: the fact with the larger guaranteed minimum length wins for lists; for nodes merge per alternative
        if a[0] == "alts" and b[0] != "alts":
            return ("alts", [meet(x, b) for x in a[1]])
        if b[0] == "alts" and a[0] != "alts":
            return ("alts", [meet(a, x) for x in b[1]])
        return a if _strength(a) >= _strength(b) else b
    if a[0] == "list" and b[0] == "list":
        return a if a[1] >= b[1] else b
    if a[0] == "node" and b[0] == "node":
        out = dict(a[1])
        for k, v in b[1].items():
            out[k] = meet(out[k], v) if k in out else v
        return ("node", out)
    return a


def _strength(s: tuple) -> int:
    if s[0] == "list":
        return s[1]
    if s[0] == "node":
        return sum(_strength(v) for v in s[1].values())
    if s[0] == "alts":
        return min((_strength(x) for x in s[1]), default=0)
    return 0
